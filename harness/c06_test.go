package harness

import (
	"context"
	"encoding/binary"
	"encoding/json"
	"errors"
	"fmt"
	"math/big"
	"sync"
	"sync/atomic"
	"testing"
	"testing/synctest"
	"time"

	"github.com/smartcontractkit/libocr/offchainreporting2plus/ocr3types"

	"github.com/smartcontractkit/chainlink-automation/pkg/util"
	"github.com/smartcontractkit/chainlink-automation/pkg/v3/config"
	"github.com/smartcontractkit/chainlink-automation/pkg/v3/coordinator"
	"github.com/smartcontractkit/chainlink-automation/pkg/v3/plugin"
	"github.com/smartcontractkit/chainlink-automation/pkg/v3/runner"
	simutil "github.com/smartcontractkit/chainlink-automation/tools/simulator/util"
	ocr2keepers "github.com/smartcontractkit/chainlink-common/pkg/types/automation"
)

// C06 — a node transmits only the newest accepted, unconfirmed report per unit of work.
// C07 — in-flight work is withheld from observation until the right event releases it.
//
// One input type and one run function serve both properties: a timed script of
// operations against a real, STARTED coordinator (its own 1 s poller and cache
// GC running on virtual time) or — for the plugin-level any-of — against a
// plugin built by the public factory.  Times are absolute virtual nanoseconds
// since the bubble started; no scripted operation lies on the poll grid of the
// running instance.

const (
	c06Sec = int64(time.Second)
	c06Ms  = int64(time.Millisecond)
)

type c06Cfg struct {
	MinConf  int   `json:"minConf"`
	WindowMs int64 `json:"windowMs"`
}
type c06Ev struct {
	W    string `json:"w"`
	UID  string `json:"uid"`
	Tx   string `json:"tx"`
	Ty   int    `json:"ty"`
	TB   uint64 `json:"tb"`
	CB   uint64 `json:"cb"`
	Conf int64  `json:"conf"`
}
type c06Up struct {
	W   string `json:"w"`
	UID string `json:"uid"`
	B   uint64 `json:"b"`
}
// list item (payload / result / proposal); work id and upkeep id are indices into c06Input.IDs on the wire
type c06Item struct {
	W   string `json:"-"`
	UID string `json:"-"`
	WI  int    `json:"wi"`
	UI  int    `json:"ui"`
	Ty  int    `json:"ty"`
	B   uint64 `json:"b"`
	Tag int    `json:"tag"`
}
type c06Op struct {
	At    int64     `json:"at"`
	K     string    `json:"k"`
	W     string    `json:"w,omitempty"`
	UID   string    `json:"uid,omitempty"`
	B     uint64    `json:"b"`
	Evs   []c06Ev   `json:"evs,omitempty"`
	Look  int       `json:"look,omitempty"` // k = "chain": number of polls the events stay in the provider's answer; k = "perr": number of polls that fail
	Mode  string    `json:"mode,omitempty"` // k = "perr": plain | canceled | deadline
	Ups   []c06Up   `json:"ups,omitempty"`
	Items []c06Item `json:"items,omitempty"`
}
type c06Input struct {
	Cfg    c06Cfg  `json:"cfg"`              // effective configuration (what the coordinator runs with)
	Plugin bool    `json:"plugin,omitempty"` // drive ShouldAccept/ShouldTransmit of a factory-built plugin
	Raw    string  `json:"raw,omitempty"`    // plugin mode: off-chain config JSON (default: derived from Cfg)
	// plugin mode: the factory first builds and closes ANOTHER instance with this configuration
	// (libocr calls NewReportingPlugin on one factory for every config); the instance under
	// test is created at T0.  Nothing of the decoy may carry over.
	Decoy  *c06Cfg  `json:"decoy,omitempty"`
	T0     int64    `json:"t0,omitempty"`
	IDs    []string `json:"ids"`             // dictionary for the ids of list items
	Ops    []c06Op `json:"ops"`
	End    int64   `json:"end"`
}
type c06Poll struct {
	At  int64  `json:"at"`
	N   int    `json:"n"`
	Err string `json:"err,omitempty"` // the provider answered this poll with an error of this kind
}
// returned list item; ids that are not in the dictionary (never the case for a filter) are spelled out
type c06OutItem struct {
	WI  int    `json:"wi"`
	UI  int    `json:"ui"`
	B   uint64 `json:"b"`
	Tag int    `json:"tag"`
	W   string `json:"w,omitempty"`
	UID string `json:"uid,omitempty"`
}
type c06Impl struct {
	Ans   []any     `json:"ans"`
	Polls []c06Poll `json:"polls"`
	Err   string    `json:"err,omitempty"`
}

// c06Events is the transmit event provider: it returns the content set by the
// script and records every call with its virtual time.
//
// Two kinds of content: `events` is returned on every poll until the script replaces
// it; `chain` models a real provider's look-back: an event emitted on chain stays in
// the answer of the next `left` polls, its confirmations growing by one per poll.
type c06Events struct {
	mu     sync.Mutex
	start  time.Time
	events []ocr2keepers.TransmitEvent
	chain  []c06ChainEv
	polls  []c06Poll
	errMode string // the next errLeft polls fail with an error of this kind
	errLeft int
}
type c06ChainEv struct {
	ev   ocr2keepers.TransmitEvent
	age  int64
	left int
}

// c06ProviderErr: what a provider may return: a plain failure, or one that wraps a context
// error of its own making (a query / RPC timeout derived from the context it was given)
func c06ProviderErr(mode string) error {
	switch mode {
	case "canceled":
		return fmt.Errorf("event provider: request aborted: %w", context.Canceled)
	case "deadline":
		return fmt.Errorf("event provider: query timed out: %w", context.DeadlineExceeded)
	}
	return errors.New("event provider: connection refused")
}

func (f *c06Events) FailNext(mode string, n int) {
	f.mu.Lock()
	f.errMode, f.errLeft = mode, n
	f.mu.Unlock()
}
func (f *c06Events) ResetPolls() {
	f.mu.Lock()
	f.polls = nil
	f.mu.Unlock()
}

func (f *c06Events) GetLatestEvents(context.Context) ([]ocr2keepers.TransmitEvent, error) {
	f.mu.Lock()
	defer f.mu.Unlock()
	if f.errLeft > 0 {
		f.errLeft--
		f.polls = append(f.polls, c06Poll{At: int64(time.Since(f.start)), Err: f.errMode})
		return nil, c06ProviderErr(f.errMode)
	}
	out := append([]ocr2keepers.TransmitEvent(nil), f.events...)
	keep := f.chain[:0]
	for _, c := range f.chain {
		ev := c.ev
		ev.Confirmations += c.age
		out = append(out, ev)
		if c.left > 1 {
			keep = append(keep, c06ChainEv{ev: c.ev, age: c.age + 1, left: c.left - 1})
		}
	}
	f.chain = keep
	f.polls = append(f.polls, c06Poll{At: int64(time.Since(f.start)), N: len(out)})
	return out, nil
}
func (f *c06Events) Chain(evs []ocr2keepers.TransmitEvent, look int) {
	f.mu.Lock()
	for _, ev := range evs {
		f.chain = append(f.chain, c06ChainEv{ev: ev, left: look})
	}
	f.mu.Unlock()
}
func (f *c06Events) Set(evs []ocr2keepers.TransmitEvent) {
	f.mu.Lock()
	f.events = evs
	f.mu.Unlock()
}
func (f *c06Events) Polls() []c06Poll {
	f.mu.Lock()
	defer f.mu.Unlock()
	return append([]c06Poll{}, f.polls...)
}

// the part of *coordinator.coordinator the script uses
type c06Coord interface {
	Accept(ocr2keepers.ReportedUpkeep) bool
	ShouldTransmit(ocr2keepers.ReportedUpkeep) bool
	PreProcess(context.Context, []ocr2keepers.UpkeepPayload) ([]ocr2keepers.UpkeepPayload, error)
	FilterResults([]ocr2keepers.CheckResult) ([]ocr2keepers.CheckResult, error)
	FilterProposals([]ocr2keepers.CoordinatedBlockProposal) ([]ocr2keepers.CoordinatedBlockProposal, error)
	Start(context.Context) error
	Close() error
}

func c06UID(s string) ocr2keepers.UpkeepIdentifier { return ocr2keepers.UpkeepIdentifier(b32(s)) }

func c06Trigger(b uint64, tag int) ocr2keepers.Trigger {
	t := ocr2keepers.Trigger{BlockNumber: ocr2keepers.BlockNumber(b)}
	binary.BigEndian.PutUint32(t.BlockHash[:4], uint32(tag))
	return t
}
func c06Tag(t ocr2keepers.Trigger) int { return int(binary.BigEndian.Uint32(t.BlockHash[:4])) }

func c06ToEvents(evs []c06Ev) []ocr2keepers.TransmitEvent {
	out := make([]ocr2keepers.TransmitEvent, 0, len(evs))
	for _, e := range evs {
		out = append(out, ocr2keepers.TransmitEvent{
			Type: ocr2keepers.TransmitEventType(e.Ty), TransmitBlock: ocr2keepers.BlockNumber(e.TB), Confirmations: e.Conf,
			TransactionHash: b32(e.Tx), UpkeepID: c06UID(e.UID), WorkID: e.W, CheckBlock: ocr2keepers.BlockNumber(e.CB),
		})
	}
	return out
}

func c06Reported(u c06Up) ocr2keepers.ReportedUpkeep {
	return ocr2keepers.ReportedUpkeep{UpkeepID: c06UID(u.UID), Trigger: c06Trigger(u.B, 0), WorkID: u.W}
}

// c06Report encodes the upkeeps the way recEncoder.Extract decodes them
func c06Report(ups []c06Up) ocr3types.ReportWithInfo[plugin.AutomationReportInfo] {
	rs := make([]ocr2keepers.CheckResult, 0, len(ups))
	for _, u := range ups {
		rs = append(rs, ocr2keepers.CheckResult{Eligible: true, UpkeepID: c06UID(u.UID), Trigger: c06Trigger(u.B, 0), WorkID: u.W,
			GasAllocated: 1, PerformData: []byte{}, FastGasWei: big.NewInt(1), LinkNative: big.NewInt(1)})
	}
	return ocr3types.ReportWithInfo[plugin.AutomationReportInfo]{Report: must(json.Marshal(rs))}
}

// normalise resolves / builds the id dictionary and fills the upkeep type of
// every list item from the harness' type getter
func (in *c06Input) normalise() map[string]int {
	idx := map[string]int{}
	for i, s := range in.IDs {
		idx[s] = i
	}
	intern := func(s string) int {
		if i, ok := idx[s]; ok {
			return i
		}
		in.IDs = append(in.IDs, s)
		idx[s] = len(in.IDs) - 1
		return idx[s]
	}
	for i := range in.Ops {
		for j := range in.Ops[i].Items {
			it := &in.Ops[i].Items[j]
			if it.UID == "" { // decoded from a corpus / replay file
				it.W, it.UID = in.IDs[it.WI], in.IDs[it.UI]
			} else {
				it.WI, it.UI = intern(it.W), intern(it.UID)
			}
			it.Ty = int(utg(c06UID(it.UID)))
		}
	}
	if in.IDs == nil {
		in.IDs = []string{}
	}
	return idx
}

func c06Out(idx map[string]int, w string, uid ocr2keepers.UpkeepIdentifier, t ocr2keepers.Trigger) c06OutItem {
	o := c06OutItem{WI: -1, UI: -1, B: uint64(t.BlockNumber), Tag: c06Tag(t)}
	if i, ok := idx[w]; ok {
		o.WI = i
	} else {
		o.W = w
	}
	if i, ok := idx[hx(uid[:])]; ok {
		o.UI = i
	} else {
		o.UID = hx(uid[:])
	}
	return o
}

func c06SleepUntil(start time.Time, at int64) {
	if d := time.Duration(at) - time.Since(start); d > 0 {
		time.Sleep(d)
	}
	synctest.Wait()
}

// c06Run executes the script on the real code (inside a synctest bubble).
func c06Run(t *testing.T, in c06Input, idx map[string]int) c06Impl {
	start := time.Now()
	prov := &c06Events{start: start}
	impl := c06Impl{Ans: make([]any, 0, len(in.Ops))}
	ctx := context.Background()

	if in.Plugin {
		raw := in.Raw
		if raw == "" {
			raw = fmt.Sprintf(`{"performLockoutWindow":%d,"minConfirmations":%d}`, in.Cfg.WindowMs, in.Cfg.MinConf)
		}
		// two instances with the same configuration, events and clock: `p` gets every report as a
		// whole, its twin `q` gets the same upkeeps one per report, in order.  Because
		// ShouldAcceptAttestedReport calls Accept for every upkeep without short-circuit, both
		// coordinators go through the same states, and q's answers are the per-upkeep answers.
		prov2 := &c06Events{start: start}
		mkf := func(ev *c06Events) ocr3types.ReportingPluginFactory[plugin.AutomationReportInfo] {
			return plugin.NewReportingPluginFactory(&fakeLogProvider{}, ev, &fakeBlocks{}, &fakeRecoverable{}, fakeBuilder{}, &fakeGetter{}, &fakeRunnable{},
				runner.RunnerConfig{Workers: 4, WorkerQueueLength: 100, CacheExpire: 20 * time.Minute, CacheClean: 30 * time.Second},
				&recEncoder{}, utg, wg, &fakeStateUpdater{}, quietLogger)
		}
		facP, facQ := mkf(prov), mkf(prov2)
		if in.Decoy != nil {
			draw := fmt.Sprintf(`{"performLockoutWindow":%d,"minConfirmations":%d}`, in.Decoy.WindowMs, in.Decoy.MinConf)
			var decoys []ocr3types.ReportingPlugin[plugin.AutomationReportInfo]
			for _, f := range []ocr3types.ReportingPluginFactory[plugin.AutomationReportInfo]{facP, facQ} {
				if d, _, err := f.NewReportingPlugin(ctx, ocr3types.ReportingPluginConfig{N: 4, F: 1, OffchainConfig: []byte(draw)}); err == nil {
					decoys = append(decoys, d)
				}
			}
			time.Sleep(1500 * time.Millisecond)
			for _, d := range decoys {
				d.Close()
			}
			c06SleepUntil(start, in.T0)
			prov.ResetPolls()
			prov2.ResetPolls()
		}
		p, _, err := facP.NewReportingPlugin(ctx, ocr3types.ReportingPluginConfig{N: 4, F: 1, OffchainConfig: []byte(raw)})
		if err != nil {
			return c06Impl{Err: "NewReportingPlugin: " + err.Error(), Ans: []any{}, Polls: []c06Poll{}}
		}
		q, _, err := facQ.NewReportingPlugin(ctx, ocr3types.ReportingPluginConfig{N: 4, F: 1, OffchainConfig: []byte(raw)})
		if err != nil {
			return c06Impl{Err: "NewReportingPlugin: " + err.Error(), Ans: []any{}, Polls: []c06Poll{}}
		}
		synctest.Wait()
		for _, op := range in.Ops {
			c06SleepUntil(start, op.At)
			switch op.K {
			case "acceptReport":
				ans := []bool{must(p.ShouldAcceptAttestedReport(ctx, 1, c06Report(op.Ups)))}
				for _, u := range op.Ups {
					ans = append(ans, must(q.ShouldAcceptAttestedReport(ctx, 1, c06Report([]c06Up{u}))))
				}
				impl.Ans = append(impl.Ans, ans)
			case "transmitReport":
				ans := []bool{must(p.ShouldTransmitAcceptedReport(ctx, 1, c06Report(op.Ups)))}
				for _, u := range op.Ups {
					ans = append(ans, must(q.ShouldTransmitAcceptedReport(ctx, 1, c06Report([]c06Up{u}))))
				}
				impl.Ans = append(impl.Ans, ans)
			case "events":
				prov.Set(c06ToEvents(op.Evs))
				prov2.Set(c06ToEvents(op.Evs))
				impl.Ans = append(impl.Ans, nil)
			case "chain":
				prov.Chain(c06ToEvents(op.Evs), op.Look)
				prov2.Chain(c06ToEvents(op.Evs), op.Look)
				impl.Ans = append(impl.Ans, nil)
			case "perr":
				prov.FailNext(op.Mode, op.Look)
				prov2.FailNext(op.Mode, op.Look)
				impl.Ans = append(impl.Ans, nil)
			default:
				impl.Err = "plugin mode: unsupported op " + op.K
				impl.Ans = append(impl.Ans, nil)
			}
		}
		c06SleepUntil(start, in.End)
		impl.Polls = prov.Polls() // polls up to the scripted end
		p.Close()
		q.Close()
		time.Sleep(11 * time.Second)
		synctest.Wait()
		return impl
	}

	conf := config.OffchainConfig{PerformLockoutWindow: in.Cfg.WindowMs, MinConfirmations: in.Cfg.MinConf}
	mk := func() c06Coord {
		c := coordinator.NewCoordinator(prov, utg, conf, quietLogger)
		go c.Start(ctx)
		synctest.Wait() // poller timer and GC tickers are armed at this instant
		return c
	}
	c := mk()
	keep := func(items []c06Item) (ps []ocr2keepers.UpkeepPayload, rs []ocr2keepers.CheckResult, cs []ocr2keepers.CoordinatedBlockProposal) {
		for _, it := range items {
			uid, trig := c06UID(it.UID), c06Trigger(it.B, it.Tag)
			ps = append(ps, ocr2keepers.UpkeepPayload{UpkeepID: uid, Trigger: trig, WorkID: it.W, CheckData: []byte{byte(it.Tag)}})
			rs = append(rs, ocr2keepers.CheckResult{Eligible: true, UpkeepID: uid, Trigger: trig, WorkID: it.W, GasAllocated: uint64(it.Tag)})
			cs = append(cs, ocr2keepers.CoordinatedBlockProposal{UpkeepID: uid, Trigger: trig, WorkID: it.W})
		}
		return
	}
	for _, op := range in.Ops {
		c06SleepUntil(start, op.At)
		switch op.K {
		case "accept":
			impl.Ans = append(impl.Ans, c.Accept(c06Reported(c06Up{W: op.W, UID: op.UID, B: op.B})))
		case "transmit":
			impl.Ans = append(impl.Ans, c.ShouldTransmit(c06Reported(c06Up{W: op.W, UID: op.UID, B: op.B})))
		case "events":
			prov.Set(c06ToEvents(op.Evs))
			impl.Ans = append(impl.Ans, nil)
		case "chain":
			prov.Chain(c06ToEvents(op.Evs), op.Look)
			impl.Ans = append(impl.Ans, nil)
		case "perr":
			prov.FailNext(op.Mode, op.Look)
			impl.Ans = append(impl.Ans, nil)
		case "restart":
			c.Close()
			synctest.Wait()
			c = mk()
			impl.Ans = append(impl.Ans, nil)
		case "pre":
			ps, _, _ := keep(op.Items)
			out := must(c.PreProcess(ctx, ps))
			o := make([]c06OutItem, 0, len(out))
			for _, p := range out {
				o = append(o, c06Out(idx, p.WorkID, p.UpkeepID, p.Trigger))
			}
			impl.Ans = append(impl.Ans, o)
		case "results":
			_, rs, _ := keep(op.Items)
			out := must(c.FilterResults(rs))
			o := make([]c06OutItem, 0, len(out))
			for _, p := range out {
				o = append(o, c06Out(idx, p.WorkID, p.UpkeepID, p.Trigger))
			}
			impl.Ans = append(impl.Ans, o)
		case "proposals":
			_, _, cs := keep(op.Items)
			out := must(c.FilterProposals(cs))
			o := make([]c06OutItem, 0, len(out))
			for _, p := range out {
				o = append(o, c06Out(idx, p.WorkID, p.UpkeepID, p.Trigger))
			}
			impl.Ans = append(impl.Ans, o)
		default:
			impl.Err = "unsupported op " + op.K
			impl.Ans = append(impl.Ans, nil)
		}
	}
	c06SleepUntil(start, in.End)
	impl.Polls = prov.Polls()
	c.Close()
	synctest.Wait()
	return impl
}

// ---------------------------------------------------------------- generator

type c06Work struct {
	W, UID string
	Ty     int
	last   uint64 // last block used in an accept
	lastAt int64
	tb     uint64 // transmit block of the last event generated for it
	force  bool   // the next accept of this work uses exactly `last` (an early event waits for it)
}

type c06Gen struct {
	r      *Rng
	in     c06Input
	cur    int64
	grid   int64 // offset of the running instance's poll grid within a second
	works  []*c06Work
	txs    []string
	evs    []c06Ev // current provider content
	w      int64   // window in ns (0 = never)
	marks  []int64 // instants whose window end is worth visiting (accept times, poll times)
	em     *Emitter
}

func c06NewWork(r *Rng, kind int) *c06Work {
	var uid ocr2keepers.UpkeepIdentifier
	switch kind {
	case 0:
		uid = genUpkeepID(r, false)
	case 1:
		uid = genUpkeepID(r, true)
	default:
		uid = ocr2keepers.UpkeepIdentifier(simutil.NewUpkeepID(r.Bytes(8), uint8(2+r.Intn(3))))
	}
	trig := ocr2keepers.Trigger{}
	if kind == 1 {
		trig.LogTriggerExtension = &ocr2keepers.LogTriggerExtension{TxHash: genHash(r), Index: uint32(r.Intn(5)), BlockHash: genHash(r), BlockNumber: ocr2keepers.BlockNumber(r.Range(1, 100))}
	}
	last := uint64(r.Range(10, 40))
	if r.Chance(20) { // block numbers at and across 2^31, 2^32, 2^53, 2^63, 2^64-1
		last = []uint64{1<<31 - 1, 1 << 32, 1<<53 - 1, 1<<63 - 2, 1<<64 - 4, 3}[r.Intn(6)] + uint64(r.Intn(3))
	}
	return &c06Work{W: wg(uid, trig), UID: hx(uid[:]), Ty: int(utg(uid)), last: last}
}

func c06Inc(b uint64) uint64 {
	if b == ^uint64(0) {
		return b
	}
	return b + 1
}

func (g *c06Gen) onGrid(t int64) bool { return ((t-g.grid)%c06Sec+c06Sec)%c06Sec == 0 }

// move advances the script clock; never lands on the poll grid of the running instance
func (g *c06Gen) move() {
	r := g.r
	var t int64
	switch k := r.Intn(20); {
	case k < 6: // same second
		t = g.cur + int64(r.Range(0, 3))*int64(r.Range(1, 90))*c06Ms
	case k < 11: // let one to three polls happen
		t = g.cur + int64(r.Range(1, 3))*c06Sec + int64(r.Range(-80, 80))*c06Ms
	case k < 17 && g.w > 0 && g.w <= 60*c06Sec && len(g.marks) > 0: // window boundary of an earlier write, ±1 ns
		m := g.marks[len(g.marks)-1-r.Intn(min(len(g.marks), 4))]
		t = m + g.w + int64(r.Range(-1, 1))
		g.em.Hit("move:boundary")
	case k < 18 && g.w > 0 && g.w <= 60*c06Sec: // well past every window
		t = g.cur + g.w + int64(r.Range(1, 2000))*c06Ms
	case k < 18: // across a run of the cache cleaner (every 30 s)
		t = g.cur + int64(r.Range(30, 65))*c06Sec + int64(r.Range(1, 900))*c06Ms
		g.em.Hit("move:across-gc")
	default:
		t = g.cur + int64(r.Range(1, 999))*c06Ms
	}
	if t < g.cur {
		t = g.cur
	}
	for g.onGrid(t) {
		t++
	}
	// polls that happen on the way rewrite records: remember them as boundary marks
	if len(g.evs) > 0 {
		first := g.cur + (c06Sec - ((g.cur-g.grid)%c06Sec+c06Sec)%c06Sec)
		for p, n := first, 0; p < t && n < 3; p, n = p+c06Sec, n+1 {
			g.marks = append(g.marks, p)
		}
	}
	g.cur = t
}

func (g *c06Gen) pick() *c06Work { return g.works[g.r.Intn(len(g.works))] }

func (g *c06Gen) near(b uint64) uint64 {
	d := g.r.Range(-2, 2)
	if d < 0 && b < uint64(-d) {
		return 0
	}
	if d > 0 && b > ^uint64(0)-uint64(d) {
		return ^uint64(0)
	}
	return b + uint64(int64(d))
}

func (g *c06Gen) genEvents() {
	r := g.r
	// keep, drop or extend the previous content (late and duplicate events)
	var evs []c06Ev
	if r.Chance(50) {
		evs = append(evs, g.evs...)
	}
	if r.Chance(10) {
		g.evs = nil
		g.add(c06Op{K: "events", Evs: []c06Ev{}})
		return
	}
	for n := r.Range(1, 3); n > 0; n-- {
		wk := g.pick()
		ev := c06Ev{W: wk.W, UID: wk.UID}
		if r.Chance(7) { // event for a work id nobody accepted
			u := c06NewWork(r, r.Intn(2))
			ev.W, ev.UID = u.W, u.UID
		}
		switch k := r.Intn(10); {
		case k < 5:
			ev.Ty = 1
		case k < 9:
			ev.Ty = r.Range(2, 4)
		default:
			ev.Ty = r.Intn(6)
		}
		switch k := r.Intn(10); {
		case k < 6:
			ev.CB = wk.last
		default:
			ev.CB = g.near(wk.last)
		}
		if r.Chance(70) || wk.tb == 0 {
			wk.tb = ev.CB + uint64(r.Range(1, 6))
		}
		ev.TB = wk.tb
		switch k := r.Intn(10); {
		case k < 3:
			ev.Conf = int64(g.in.Cfg.MinConf) - 1
		case k < 6:
			ev.Conf = int64(g.in.Cfg.MinConf)
		case k < 8:
			ev.Conf = int64(g.in.Cfg.MinConf) + 1
		case k < 9:
			ev.Conf = int64(r.Range(0, 6))
		default: // far beyond any minimum, and negative
			ev.Conf = []int64{1 << 31, 1 << 53, 1<<63 - 1, -1, -1 << 63}[r.Intn(5)]
		}
		if len(g.txs) < 6 && r.Chance(60) || len(g.txs) == 0 {
			g.txs = append(g.txs, hx(r.Bytes(32)))
		}
		ev.Tx = g.txs[r.Intn(len(g.txs))]
		// the same transaction reported again with more confirmations
		if r.Chance(25) && len(evs) > 0 {
			prev := evs[r.Intn(len(evs))]
			ev = prev
			ev.Conf = prev.Conf + int64(r.Range(0, 2))
		}
		g.em.Hit(fmt.Sprintf("event:type=%d", ev.Ty))
		evs = append(evs, ev)
	}
	if len(evs) > 6 {
		evs = evs[len(evs)-6:]
	}
	g.evs = evs
	g.add(c06Op{K: "events", Evs: append([]c06Ev{}, evs...)})
}

// genChain emits events the way a chain does: they stay in the provider's answer for the
// next `look` polls with growing confirmations.  Half of the time the event is EARLY: for a
// block the node has not accepted yet and will accept next (another node transmitted
// first, or this node restarted with empty state).
func (g *c06Gen) genChain() {
	r := g.r
	wk := g.pick()
	ev := c06Ev{W: wk.W, UID: wk.UID, Ty: 1}
	if r.Chance(35) {
		ev.Ty = r.Range(2, 4)
	}
	if r.Chance(50) {
		if r.Chance(60) {
			wk.last = c06Inc(wk.last) // a block that has not been accepted yet
		}
		wk.force = true
		g.em.Hit("chain:early")
	}
	ev.CB = wk.last
	if r.Chance(15) {
		ev.CB = g.near(wk.last)
	}
	wk.tb = ev.CB + uint64(r.Range(1, 6))
	ev.TB = wk.tb
	ev.Conf = int64(g.in.Cfg.MinConf) + int64(r.Range(-2, 1))
	if ev.Conf < 0 {
		ev.Conf = 0
	}
	ev.Tx = hx(r.Bytes(32))
	g.em.Hit(fmt.Sprintf("event:type=%d", ev.Ty))
	g.add(c06Op{K: "chain", Evs: []c06Ev{ev}, Look: r.Range(2, 8)})
	g.evs = append(g.evs, ev) // polls on the way are worth visiting as window marks
}

// genProviderError: the next one or two polls are answered with an error — plain, or wrapping a
// context error of the provider's own making; polling must go on at the next tick
func (g *c06Gen) genProviderError() {
	mode := []string{"plain", "canceled", "deadline"}[g.r.Intn(3)]
	g.em.Hit("provider-error:" + mode)
	g.add(c06Op{K: "perr", Mode: mode, Look: g.r.Range(1, 2)})
}

func (g *c06Gen) add(op c06Op) {
	op.At = g.cur
	g.in.Ops = append(g.in.Ops, op)
	g.em.Hit("op:" + op.K)
}

func (g *c06Gen) genAccept() {
	wk := g.pick()
	for _, w := range g.works { // an early event is waiting for exactly this block
		if w.force && g.r.Chance(70) {
			wk = w
		}
	}
	switch k := g.r.Intn(10); {
	case wk.force:
		wk.force = false
		g.em.Hit("accept:after-early-event")
	case k < 4:
		wk.last = c06Inc(wk.last)
	case k < 6:
		// equal block
	case k < 8:
		if wk.last > 0 {
			wk.last--
		}
	default:
		wk.last = g.near(wk.last + 1)
	}
	wk.lastAt = g.cur
	g.marks = append(g.marks, g.cur)
	g.add(c06Op{K: "accept", W: wk.W, UID: wk.UID, B: wk.last})
}

func (g *c06Gen) genTransmit() {
	wk := g.pick()
	b := wk.last
	if g.r.Chance(25) {
		b = g.near(b)
	}
	g.add(c06Op{K: "transmit", W: wk.W, UID: wk.UID, B: b})
}

func (g *c06Gen) ups() []c06Up {
	n := g.r.Range(1, 3)
	out := make([]c06Up, 0, n)
	for i := 0; i < n; i++ {
		wk := g.pick()
		b := wk.last
		switch k := g.r.Intn(10); {
		case k < 3:
			wk.last = c06Inc(wk.last)
			b = wk.last
		case k < 5:
			b = g.near(b)
		}
		out = append(out, c06Up{W: wk.W, UID: wk.UID, B: b})
	}
	return out
}

func (g *c06Gen) items() []c06Item {
	r := g.r
	n := 0
	switch k := r.Intn(20); {
	case k == 0:
		n = 0
	case k < 16:
		n = r.Range(1, 10)
	case k < 19:
		n = r.Range(11, 50)
	default:
		n = r.Range(51, 200)
	}
	out := make([]c06Item, 0, n)
	for i := 0; i < n; i++ {
		wk := g.pick()
		it := c06Item{W: wk.W, UID: wk.UID, Ty: wk.Ty, Tag: i}
		if r.Chance(8) { // work the coordinator has never heard of
			u := c06NewWork(r, r.Intn(3))
			it.W, it.UID, it.Ty = u.W, u.UID, u.Ty
		}
		switch k := r.Intn(10); {
		case k < 6 && wk.tb > 0: // around the perform block
			it.B = uint64(int64(wk.tb) + int64(r.Range(-1, 1)))
		case k < 8:
			it.B = g.near(wk.last)
		default:
			it.B = uint64(r.Range(0, 80))
		}
		out = append(out, it)
	}
	// runs of ADJACENT items for one unit of work (duplicates of the same work id, same or
	// neighbouring blocks) at the start, the end and inside the list: when that work is
	// withheld, every item of the run must go
	for nruns := r.Intn(4); nruns > 0 && len(g.works) > 0; nruns-- {
		wk := g.pick()
		k := r.Range(2, 5)
		run := make([]c06Item, 0, k)
		for i := 0; i < k; i++ {
			it := c06Item{W: wk.W, UID: wk.UID, Ty: wk.Ty, B: wk.last}
			switch x := r.Intn(4); {
			case x == 0 && wk.tb > 0:
				it.B = uint64(int64(wk.tb) + int64(r.Range(-1, 1)))
			case x == 1:
				it.B = g.near(wk.last)
			}
			run = append(run, it)
		}
		pos := 0
		switch r.Intn(3) {
		case 0:
			pos = 0
			g.em.Hit("items:run-at-start")
		case 1:
			pos = len(out)
			g.em.Hit("items:run-at-end")
		default:
			pos = r.Intn(len(out) + 1)
			g.em.Hit("items:run-inside")
		}
		out = append(out[:pos], append(run, out[pos:]...)...)
	}
	for i := range out {
		out[i].Tag = i
	}
	return out
}

// c06GenCase builds one history; c07 adds the filter operations.
func c06GenCase(r *Rng, em *Emitter, c07 bool, plugin bool) c06Input {
	g := &c06Gen{r: r, em: em}
	g.in.Cfg.MinConf = []int{0, 1, 3}[r.Intn(3)]
	switch k := r.Intn(10); {
	case k < 5:
		g.in.Cfg.WindowMs = 5000
	case k < 7:
		g.in.Cfg.WindowMs = int64(4863 + r.Range(-1, 1)) // accept at x.137 expires on / next to the poll grid
	case k < 8:
		g.in.Cfg.WindowMs = int64(r.Range(1, 3)) * 1000
	case k < 9:
		g.in.Cfg.WindowMs = int64(r.Range(1, 20000))
	default:
		g.in.Cfg.WindowMs = 0 // entries never expire (only reachable through NewCoordinator)
	}
	if r.Chance(8) {
		// hours, a year, centuries (now + window is past the year 2262: UnixNano wraps to a negative Expires)
		g.in.Cfg.WindowMs = []int64{3_600_000, 31_536_000_000, 8_830_000_000_000}[r.Intn(3)]
		em.Hit("cfg:window=huge")
	}
	if plugin {
		g.in.Plugin = true
		if g.in.Cfg.WindowMs == 0 {
			g.in.Cfg.WindowMs = 5000
		}
		if r.Chance(60) {
			// a decoy instance on the same factory first, with another window and another minimum
			d := c06Cfg{MinConf: []int{0, 2, 5}[r.Intn(3)], WindowMs: []int64{1000, 3000, 1200000}[r.Intn(3)]}
			if d.MinConf == g.in.Cfg.MinConf {
				d.MinConf++
			}
			g.in.Decoy = &d
			g.in.T0 = 12500 * c06Ms
			g.grid = g.in.T0 % c06Sec
			em.Hit("plugin:decoy-first")
		}
		g.cur = g.in.T0 + 1500*c06Ms + 137*c06Ms
	} else {
		g.cur = 137 * c06Ms
	}
	g.w = g.in.Cfg.WindowMs * c06Ms
	em.Hit(fmt.Sprintf("cfg:minConf=%d", g.in.Cfg.MinConf))
	em.Hit(fmt.Sprintf("cfg:window=%s", map[bool]string{true: "0", false: ">0"}[g.w == 0]))
	nw := r.Range(1, 4)
	for i := 0; i < nw; i++ {
		k := r.Intn(2)
		if r.Chance(8) {
			k = 2
		}
		g.works = append(g.works, c06NewWork(r, k))
	}
	em.Hit(fmt.Sprintf("works=%d", nw))
	nops := r.Range(10, 60)
	for len(g.in.Ops) < nops {
		if len(g.in.Ops) > 0 {
			g.move()
		}
		k := r.Intn(100)
		switch {
		case plugin:
			switch {
			case k < 40:
				g.add(c06Op{K: "acceptReport", Ups: g.ups()})
			case k < 75:
				g.add(c06Op{K: "transmitReport", Ups: g.ups()})
			case k < 88:
				g.genEvents()
			case k < 97:
				g.genChain()
			default:
				g.genProviderError()
			}
		case c07:
			switch {
			case k < 22:
				g.genAccept()
			case k < 27:
				g.genTransmit()
			case k < 42:
				g.genEvents()
			case k < 49:
				g.genChain()
			case k < 51:
				g.genProviderError()
			case k < 52:
				g.restart()
			case k < 68:
				g.add(c06Op{K: "pre", Items: g.items()})
			case k < 84:
				g.add(c06Op{K: "results", Items: g.items()})
			default:
				g.add(c06Op{K: "proposals", Items: g.items()})
			}
		default:
			switch {
			case k < 35:
				g.genAccept()
			case k < 70:
				g.genTransmit()
			case k < 86:
				g.genEvents()
			case k < 95:
				g.genChain()
			case k < 98:
				g.genProviderError()
			default:
				g.restart()
			}
		}
	}
	g.move()
	g.in.End = g.cur
	return g.in
}

func (g *c06Gen) restart() {
	// the new instance polls at restart time + k s: keep scripted times off that grid too
	g.grid = ((g.cur % c06Sec) + c06Sec) % c06Sec
	g.add(c06Op{K: "restart"})
	g.cur++ // the next operation must not sit on the new grid (cur + k s)
}

// ---------------------------------------------------------------- hand-written cases

type c06Script struct {
	in  c06Input
	wk  []*c06Work
	cur int64
}

func c06NewScript(minConf int, windowMs int64, kinds ...int) *c06Script {
	r := NewRng(606060)
	s := &c06Script{in: c06Input{Cfg: c06Cfg{MinConf: minConf, WindowMs: windowMs}}}
	for _, k := range kinds {
		s.wk = append(s.wk, c06NewWork(r, k))
	}
	return s
}
func (s *c06Script) at(ms int64, ns int64) *c06Script { s.cur = ms*c06Ms + ns; return s }
func (s *c06Script) op(op c06Op) *c06Script {
	op.At = s.cur
	s.in.Ops = append(s.in.Ops, op)
	return s
}
func (s *c06Script) accept(i int, b uint64) *c06Script {
	return s.op(c06Op{K: "accept", W: s.wk[i].W, UID: s.wk[i].UID, B: b})
}
func (s *c06Script) transmit(i int, b uint64) *c06Script {
	return s.op(c06Op{K: "transmit", W: s.wk[i].W, UID: s.wk[i].UID, B: b})
}
func (s *c06Script) ev(i int, tx byte, ty int, tb, cb uint64, conf int64) c06Ev {
	h := make([]byte, 32)
	h[0] = tx
	return c06Ev{W: s.wk[i].W, UID: s.wk[i].UID, Tx: hx(h), Ty: ty, TB: tb, CB: cb, Conf: conf}
}
func (s *c06Script) events(evs ...c06Ev) *c06Script {
	if evs == nil {
		evs = []c06Ev{}
	}
	return s.op(c06Op{K: "events", Evs: evs})
}
func (s *c06Script) list(kind string, blocks ...uint64) *c06Script {
	var items []c06Item
	for _, wk := range s.wk {
		for _, b := range blocks {
			items = append(items, c06Item{W: wk.W, UID: wk.UID, Ty: wk.Ty, B: b})
		}
	}
	for i := range items {
		items[i].Tag = i
	}
	return s.op(c06Op{K: kind, Items: items})
}
func (s *c06Script) end(ms int64) c06Input { s.in.End = ms * c06Ms; return s.in }

func c06Edge() []c06Input {
	var out []c06Input
	// accept, confirmed perform for the same block, transmit withdrawn; stale event for an older block ignored
	{
		s := c06NewScript(1, 5000, 0)
		s.at(137, 0).accept(0, 10).transmit(0, 10).transmit(0, 9).transmit(0, 11)
		s.at(300, 0).events(s.ev(0, 1, 1, 15, 10, 0)) // not enough confirmations
		s.at(1137, 0).transmit(0, 10)
		s.at(1300, 0).events(s.ev(0, 1, 1, 15, 10, 1))
		s.at(2137, 0).transmit(0, 10).accept(0, 10).accept(0, 9).accept(0, 11).transmit(0, 11)
		s.at(2300, 0).events(s.ev(0, 2, 2, 16, 10, 5)) // old event
		s.at(3137, 0).transmit(0, 11)
		out = append(out, s.end(3500))
	}
	// window boundary ±1 ns for ShouldTransmit and Accept
	{
		s := c06NewScript(0, 5000, 1)
		s.at(137, 0).accept(0, 7)
		s.at(5137, -1).transmit(0, 7).accept(0, 7)
		s.at(5137, 0).transmit(0, 7).accept(0, 6)
		s.at(5137, 1).transmit(0, 7).accept(0, 6).transmit(0, 6).transmit(0, 7)
		out = append(out, s.end(5600))
	}
	// early event (before the acceptance) is not marked visited and is processed after the acceptance
	{
		s := c06NewScript(1, 5000, 0)
		s.at(137, 0).events(s.ev(0, 1, 1, 15, 10, 3))
		s.at(1137, 0).accept(0, 10).transmit(0, 10)
		s.at(2137, 0).transmit(0, 10)
		out = append(out, s.end(2500))
	}
	// the chain keeps returning a confirmed perform event (look-back of 6 polls, confirmations
	// growing) that was first polled BEFORE the report was accepted — another node transmitted
	// first, or (second half) this node restarted: it must be processed after the acceptance
	{
		s := c06NewScript(2, 5000, 0, 1)
		s.at(137, 0).op(c06Op{K: "chain", Evs: []c06Ev{s.ev(0, 1, 1, 15, 10, 1), s.ev(1, 2, 1, 15, 10, 3)}, Look: 6})
		s.at(2137, 0).accept(0, 10).accept(1, 10).transmit(0, 10).transmit(1, 10)
		s.at(3137, 0).transmit(0, 10).transmit(1, 10).accept(0, 10)
		s.at(3600, 0).op(c06Op{K: "restart"})
		s.at(3700, 0).accept(0, 10).accept(1, 10)
		s.at(4700, 0).transmit(0, 10).transmit(1, 10)
		out = append(out, s.end(7900))
	}
	// an old event stays visited after the record expired: the lower block accepted afterwards is offered
	{
		s := c06NewScript(1, 5000, 0)
		s.at(137, 0).accept(0, 20)
		s.at(4200, 0).events(s.ev(0, 1, 1, 30, 15, 3))
		s.at(5200, 0).accept(0, 15).transmit(0, 15)
		s.at(6200, 0).transmit(0, 15)
		s.at(10200, 0).transmit(0, 15)
		out = append(out, s.end(10500))
	}
	// confirmations grow across polls; newer event moves the awaited block; accept below / above it
	{
		s := c06NewScript(3, 5000, 0, 1)
		s.at(137, 0).accept(0, 10).accept(1, 10)
		s.at(300, 0).events(s.ev(0, 1, 1, 15, 12, 2), s.ev(1, 2, 3, 15, 10, 2))
		s.at(1137, 0).transmit(0, 10).transmit(1, 10)
		s.at(1300, 0).events(s.ev(0, 1, 1, 15, 12, 3), s.ev(1, 2, 3, 15, 10, 3))
		s.at(2137, 0).transmit(0, 10).transmit(0, 12).accept(0, 11).accept(0, 12).accept(0, 13).transmit(0, 13).transmit(1, 10).accept(1, 10)
		out = append(out, s.end(2500))
	}
	// restart forgets; events for the forgotten work are ignored and not marked
	{
		s := c06NewScript(0, 5000, 0)
		s.at(137, 0).accept(0, 10)
		s.at(600, 0).op(c06Op{K: "restart"})
		s.at(700, 0).transmit(0, 10).events(s.ev(0, 1, 1, 15, 10, 3))
		s.at(2137, 0).transmit(0, 10).accept(0, 10).transmit(0, 10)
		s.at(3137, 0).transmit(0, 10)
		out = append(out, s.end(3300))
	}
	// window chosen so that the acceptance expires exactly on a poll instant (4863 ms after x.137)
	for _, w := range []int64{4862, 4863, 4864} {
		s := c06NewScript(0, w, 0)
		s.at(137, 0).accept(0, 10)
		s.at(4500, 0).events(s.ev(0, 1, 1, 15, 10, 0))
		s.at(5100, 0).transmit(0, 10).accept(0, 10)
		out = append(out, s.end(5500))
	}
	// entries never expire with a zero window
	{
		s := c06NewScript(0, 0, 0)
		s.at(137, 0).accept(0, 10)
		s.at(4000137, 0).transmit(0, 10).accept(0, 9)
		out = append(out, s.end(4000500))
	}
	// plugin level any-of
	{
		s := c06NewScript(0, 5000, 0, 1, 0)
		s.in.Plugin = true
		up := func(i int, b uint64) c06Up { return c06Up{W: s.wk[i].W, UID: s.wk[i].UID, B: b} }
		s.at(1637, 0).op(c06Op{K: "acceptReport", Ups: []c06Up{up(0, 10)}})
		s.op(c06Op{K: "acceptReport", Ups: []c06Up{up(0, 10), up(1, 10), up(2, 10)}}) // one refused, two accepted
		s.op(c06Op{K: "acceptReport", Ups: []c06Up{up(0, 9), up(1, 10)}})              // all refused
		s.op(c06Op{K: "acceptReport", Ups: []c06Up{up(2, 11), up(2, 11)}})             // same work twice: second refused
		s.op(c06Op{K: "transmitReport", Ups: []c06Up{up(0, 9), up(1, 10)}})
		s.op(c06Op{K: "transmitReport", Ups: []c06Up{up(0, 9), up(2, 10)}})
		s.at(1800, 0).events(s.ev(1, 1, 1, 15, 10, 0))
		s.at(2637, 0).op(c06Op{K: "transmitReport", Ups: []c06Up{up(0, 9), up(1, 10)}})
		s.op(c06Op{K: "transmitReport", Ups: []c06Up{up(0, 10), up(1, 10)}})
		out = append(out, s.end(2900))
	}
	// plugin with an empty off-chain config: 20 min default window, min confirmations 0
	{
		s := c06NewScript(0, 20*60*1000, 0)
		s.in.Plugin, s.in.Raw = true, `{}`
		up := func(i int, b uint64) c06Up { return c06Up{W: s.wk[i].W, UID: s.wk[i].UID, B: b} }
		s.at(1637, 0).op(c06Op{K: "acceptReport", Ups: []c06Up{up(0, 10)}})
		s.at(1201637, 0).op(c06Op{K: "transmitReport", Ups: []c06Up{up(0, 10)}})
		s.at(1201637, 1).op(c06Op{K: "transmitReport", Ups: []c06Up{up(0, 10)}})
		out = append(out, s.end(1201900))
	}
	return out
}

func c07Edge() []c06Input {
	var out []c06Input
	// life cycle for a conditional, a log-triggered and an other-typed unit of work
	for _, ty := range []int{1, 2, 3, 4, 0, 5, 200} {
		s := c06NewScript(1, 5000, 0, 1, 2)
		s.at(137, 0).list("pre", 10, 20).accept(0, 10).accept(1, 10).accept(2, 10)
		s.list("pre", 9, 10, 11).list("results", 9, 10, 11).list("proposals", 10)
		s.at(300, 0).events(s.ev(0, 1, ty, 20, 10, 1), s.ev(1, 2, ty, 20, 10, 1), s.ev(2, 3, ty, 20, 10, 0))
		s.at(1137, 0).list("pre", 19, 20, 21).list("results", 19, 20, 21).list("proposals", 19)
		s.at(6000, -1).list("pre", 19, 20)
		s.at(6000, 1).list("pre", 19, 20).list("results", 19, 20).list("proposals", 19)
		out = append(out, s.end(6500))
	}
	// 200 items, unknown work ids, empty lists
	{
		s := c06NewScript(0, 5000, 0, 1)
		s.at(137, 0).accept(0, 10).op(c06Op{K: "pre", Items: []c06Item{}}).op(c06Op{K: "results", Items: []c06Item{}}).op(c06Op{K: "proposals", Items: []c06Item{}})
		blocks := make([]uint64, 100)
		for i := range blocks {
			blocks[i] = uint64(i)
		}
		s.at(300, 0).events(s.ev(0, 1, 1, 50, 10, 0))
		s.at(1137, 0).list("pre", blocks...).list("results", blocks...).list("proposals", blocks...)
		out = append(out, s.end(1500))
	}
	return out
}

// ---------------------------------------------------------------- GC race stress (real goroutines)

type c06RaceInput struct {
	Kind   string `json:"kind"`
	Trials int    `json:"trials"`
}
type c06RaceImpl struct {
	Lost int `json:"lost"`
}

// c06CacheRace: on the real util.Cache, ClearExpired races a Set that renews an expired key.
// Un-timed goroutines, real clock (an entry must really be expired); the trial count is fixed.
// Before "fix: cache: ClearExpired no longer deletes an entry that was renewed after the scan"
// about 1.6 of 1000 such trials lost the fresh entry.
func c06CacheRace(trials int) int {
	const workers = 4
	var lost atomic.Int64
	var all sync.WaitGroup
	for w := 0; w < workers; w++ {
		n := trials / workers
		if w == 0 {
			n += trials % workers
		}
		all.Add(1)
		go func() {
			defer all.Done()
			for i := 0; i < n; i++ {
				c := util.NewCache[int](time.Hour)
				for j := 0; j < 50; j++ { // more expired entries make the scan longer
					c.Set(string(rune('a'+j)), j, time.Nanosecond)
				}
				c.Set("w", 1, time.Nanosecond)
				for t0 := time.Now(); time.Since(t0) < 2*time.Nanosecond; {
				}
				var wg sync.WaitGroup
				wg.Add(2)
				go func() { defer wg.Done(); c.ClearExpired() }()
				go func() { defer wg.Done(); c.Set("w", 2, time.Hour) }()
				wg.Wait()
				if v, ok := c.Get("w"); !ok || v != 2 {
					lost.Add(1)
				}
			}
		}()
	}
	all.Wait()
	return int(lost.Load())
}

// c06CoordRace: the same race through a real, started coordinator in a bubble.  51 reports
// are accepted at 20.137 s (window 5 s: expired at 25.137 s, not yet collected); the cache GC
// ticks at 30 s, and at that very virtual instant — i.e. really concurrently — the script
// accepts one of the work ids again.  The acceptance must still be known afterwards.
func c06CoordRace(t *testing.T, trials int) int {
	lost := 0
	r := NewRng(97)
	wks := make([]*c06Work, 51)
	for i := range wks {
		wks[i] = c06NewWork(r, i%2)
	}
	for i := 0; i < trials; i++ {
		synctest.Test(t, func(t *testing.T) {
			ctx := context.Background()
			prov := &c06Events{start: time.Now()}
			c := coordinator.NewCoordinator(prov, utg, config.OffchainConfig{PerformLockoutWindow: 5000}, quietLogger)
			go c.Start(ctx)
			synctest.Wait()
			time.Sleep(20*time.Second + 137*time.Millisecond)
			synctest.Wait()
			for _, wk := range wks {
				c.Accept(c06Reported(c06Up{W: wk.W, UID: wk.UID, B: 7}))
			}
			time.Sleep(10*time.Second - 137*time.Millisecond) // wake up together with the GC tick
			up := c06Reported(c06Up{W: wks[50].W, UID: wks[50].UID, B: 3})
			ok := c.Accept(up)
			synctest.Wait()
			if !ok || !c.ShouldTransmit(up) {
				lost++
			}
			c.Close()
			synctest.Wait()
		})
	}
	return lost
}

// c06PollRace: Accept racing the event loop on a real, started coordinator.  K work ids
// await block 100; the provider returns a confirmed perform event for (w, 100) for each; at
// exactly the poll instant (same virtual instant, i.e. really concurrent with the poller)
// the script accepts (w, 200) for each of them from a few goroutines.  Whichever of the two
// operations comes first, the state must end as {200, pending}: Accept(w,200) answers
// true, ShouldTransmit(w,200) is true afterwards and the lower block 150 is refused.  A
// trial is lost if that fails for some work id (the event body's read-modify-write was
// not atomic w.r.t. Accept).
func c06PollRace(t *testing.T, trials int) int {
	lost := 0
	r := NewRng(98)
	const K = 48
	wks := make([]*c06Work, K)
	evs := make([]c06Ev, K)
	for i := range wks {
		wks[i] = c06NewWork(r, i%2)
		evs[i] = c06Ev{W: wks[i].W, UID: wks[i].UID, Tx: hx(r.Bytes(32)), Ty: 1, TB: 120, CB: 100, Conf: 5}
	}
	for i := 0; i < trials; i++ {
		synctest.Test(t, func(t *testing.T) {
			ctx := context.Background()
			prov := &c06Events{start: time.Now()}
			c := coordinator.NewCoordinator(prov, utg, config.OffchainConfig{PerformLockoutWindow: 5000, MinConfirmations: 1}, quietLogger)
			go c.Start(ctx)
			synctest.Wait()
			time.Sleep(137 * time.Millisecond)
			for _, wk := range wks {
				c.Accept(c06Reported(c06Up{W: wk.W, UID: wk.UID, B: 100}))
			}
			prov.Set(c06ToEvents(evs))
			var bad atomic.Int64
			var wg sync.WaitGroup
			const G = 4
			for g := 0; g < G; g++ {
				wg.Add(1)
				go func() {
					defer wg.Done()
					time.Sleep(time.Second - 137*time.Millisecond) // wake up together with the poller
					for j := g; j < K; j += G {
						if !c.Accept(c06Reported(c06Up{W: wks[j].W, UID: wks[j].UID, B: 200})) {
							bad.Add(1)
						}
					}
				}()
			}
			wg.Wait()
			synctest.Wait()
			for _, wk := range wks {
				if !c.ShouldTransmit(c06Reported(c06Up{W: wk.W, UID: wk.UID, B: 200})) ||
					c.Accept(c06Reported(c06Up{W: wk.W, UID: wk.UID, B: 150})) {
					bad.Add(1)
				}
			}
			if bad.Load() > 0 {
				lost++
			}
			c.Close()
			synctest.Wait()
		})
	}
	return lost
}

// c06CacheReadRace: on the real util.Cache, readers of an expired, not yet collected key race a
// Set that renews it.  A Get must be read-only: afterwards the fresh entry is there.
func c06CacheReadRace(trials int) int {
	const workers = 4
	var lost atomic.Int64
	var all sync.WaitGroup
	for w := 0; w < workers; w++ {
		n := trials / workers
		if w == 0 {
			n += trials % workers
		}
		all.Add(1)
		go func() {
			defer all.Done()
			for i := 0; i < n; i++ {
				c := util.NewCache[int](time.Hour)
				c.Set("w", 1, time.Nanosecond)
				for t0 := time.Now(); time.Since(t0) < 2*time.Nanosecond; {
				}
				var wg sync.WaitGroup
				for r := 0; r < 3; r++ {
					wg.Add(1)
					go func() { defer wg.Done(); c.Get("w") }()
				}
				wg.Add(1)
				go func() { defer wg.Done(); c.Set("w", 2, time.Hour) }()
				wg.Wait()
				if v, ok := c.Get("w"); !ok || v != 2 {
					lost.Add(1)
				}
			}
		}()
	}
	all.Wait()
	return int(lost.Load())
}

// c06CoordReadRace: the same through a real, started coordinator in a bubble.  K reports are
// accepted at 20.137 s (window 5 s: expired at 25.137 s, the cache GC only runs at 30 s).  At
// 26 s un-timed goroutines — really concurrent — accept the work ids again while others read
// them through ShouldTransmit, PreProcess, FilterResults and FilterProposals.  Afterwards every
// acceptance must be known: offered for transmission and withheld by all three filters.
func c06CoordReadRace(t *testing.T, trials int) int {
	lost := 0
	r := NewRng(99)
	const K = 32
	wks := make([]*c06Work, K)
	ups := make([]ocr2keepers.ReportedUpkeep, K)
	var ps []ocr2keepers.UpkeepPayload
	var rs []ocr2keepers.CheckResult
	var cs []ocr2keepers.CoordinatedBlockProposal
	for i := range wks {
		wks[i] = c06NewWork(r, i%2)
		ups[i] = c06Reported(c06Up{W: wks[i].W, UID: wks[i].UID, B: 3})
		uid, trig := c06UID(wks[i].UID), c06Trigger(3, i)
		ps = append(ps, ocr2keepers.UpkeepPayload{UpkeepID: uid, Trigger: trig, WorkID: wks[i].W})
		rs = append(rs, ocr2keepers.CheckResult{UpkeepID: uid, Trigger: trig, WorkID: wks[i].W})
		cs = append(cs, ocr2keepers.CoordinatedBlockProposal{UpkeepID: uid, Trigger: trig, WorkID: wks[i].W})
	}
	for i := 0; i < trials; i++ {
		synctest.Test(t, func(t *testing.T) {
			ctx := context.Background()
			prov := &c06Events{start: time.Now()}
			c := coordinator.NewCoordinator(prov, utg, config.OffchainConfig{PerformLockoutWindow: 5000}, quietLogger)
			go c.Start(ctx)
			synctest.Wait()
			time.Sleep(20*time.Second + 137*time.Millisecond)
			synctest.Wait()
			for _, wk := range wks {
				c.Accept(c06Reported(c06Up{W: wk.W, UID: wk.UID, B: 7}))
			}
			time.Sleep(6 * time.Second)
			synctest.Wait()
			var bad atomic.Int64
			var wg sync.WaitGroup
			readers := []func(){
				func() {
					for _, u := range ups {
						c.ShouldTransmit(u)
					}
				},
				func() { c.PreProcess(ctx, ps) },
				func() { c.FilterResults(rs) },
				func() { c.FilterProposals(cs) },
			}
			for _, rd := range readers {
				wg.Add(1)
				go func() { defer wg.Done(); rd() }()
			}
			for g := 0; g < 2; g++ {
				wg.Add(1)
				go func() {
					defer wg.Done()
					for j := g; j < K; j += 2 {
						if !c.Accept(ups[j]) {
							bad.Add(1)
						}
					}
				}()
			}
			wg.Wait()
			synctest.Wait()
			for _, u := range ups {
				if !c.ShouldTransmit(u) {
					bad.Add(1)
				}
			}
			if out, _ := c.PreProcess(ctx, ps); len(out) != 0 {
				bad.Add(1)
			}
			if out, _ := c.FilterResults(rs); len(out) != 0 {
				bad.Add(1)
			}
			if out, _ := c.FilterProposals(cs); len(out) != 0 {
				bad.Add(1)
			}
			if bad.Load() > 0 {
				lost++
			}
			c.Close()
			synctest.Wait()
		})
	}
	return lost
}

// ---------------------------------------------------------------- volume

type c06CapInput struct {
	Kind   string `json:"kind"`   // "capacity"
	Works  int    `json:"works"`  // distinct work ids accepted (in four batches one second apart)
	Pad    int    `json:"pad"`    // events for unknown work ids returned by ONE poll ahead of the relevant ones
	Events int    `json:"events"` // confirmed perform events for the first accepted work ids, at the end of that answer
}
type c06CapImpl struct {
	Refused     int `json:"refused"`     // Accept of a fresh work id answered false
	NotOffered  int `json:"notOffered"`  // accepted, no event: ShouldTransmit answered false inside the window
	EventMissed int `json:"eventMissed"` // confirmed perform polled, ShouldTransmit still true
	NotWithheld int `json:"notWithheld"` // payloads / results / proposals of in-flight work that passed a filter
}

// c06Capacity: volume.  The model has no bound on the number of records, of visited events or
// of events per poll: every accepted report stays known for its window however many others
// there are, and an event is processed wherever it stands in the provider's answer.
func c06Capacity(t *testing.T, in c06CapInput) c06CapImpl {
	var impl c06CapImpl
	synctest.Test(t, func(t *testing.T) {
		ctx := context.Background()
		prov := &c06Events{start: time.Now()}
		c := coordinator.NewCoordinator(prov, utg, config.OffchainConfig{PerformLockoutWindow: 600_000, MinConfirmations: 1}, quietLogger)
		go c.Start(ctx)
		synctest.Wait()
		uidC, uidL := genUpkeepID(NewRng(5), false), genUpkeepID(NewRng(6), true)
		up := func(i int) ocr2keepers.ReportedUpkeep {
			uid := uidC
			if i%2 == 1 {
				uid = uidL
			}
			return ocr2keepers.ReportedUpkeep{UpkeepID: uid, Trigger: c06Trigger(100, 0), WorkID: fmt.Sprintf("work-%d", i)}
		}
		for b := 0; b < 4; b++ {
			time.Sleep(time.Duration(137*c06Ms) + time.Duration(b)*time.Second - time.Since(prov.start))
			synctest.Wait()
			for i := b * in.Works / 4; i < (b+1)*in.Works/4; i++ {
				if !c.Accept(up(i)) {
					impl.Refused++
				}
			}
		}
		evs := make([]ocr2keepers.TransmitEvent, 0, in.Pad+in.Events)
		for i := 0; i < in.Pad; i++ {
			ev := ocr2keepers.TransmitEvent{Type: ocr2keepers.PerformEvent, TransmitBlock: 120, Confirmations: 5, WorkID: fmt.Sprintf("unknown-%d", i), CheckBlock: 100}
			binary.BigEndian.PutUint32(ev.TransactionHash[:4], uint32(i))
			evs = append(evs, ev)
		}
		for i := 0; i < in.Events; i++ {
			u := up(i)
			ev := ocr2keepers.TransmitEvent{Type: ocr2keepers.PerformEvent, TransmitBlock: 120, Confirmations: 5, UpkeepID: u.UpkeepID, WorkID: u.WorkID, CheckBlock: 100}
			binary.BigEndian.PutUint32(ev.TransactionHash[4:8], uint32(i)+1)
			evs = append(evs, ev)
		}
		time.Sleep(200 * time.Millisecond)
		prov.Set(evs)
		time.Sleep(time.Second) // exactly one poll sees the big answer
		synctest.Wait()
		prov.Set(nil)
		const chunk = 4096
		for lo := 0; lo < in.Works; lo += chunk {
			hi := min(lo+chunk, in.Works)
			ps := make([]ocr2keepers.UpkeepPayload, 0, hi-lo)
			rs := make([]ocr2keepers.CheckResult, 0, hi-lo)
			cs := make([]ocr2keepers.CoordinatedBlockProposal, 0, hi-lo)
			for i := lo; i < hi; i++ {
				u := up(i)
				offered := c.ShouldTransmit(u)
				if i < in.Events {
					if offered {
						impl.EventMissed++
					}
				} else if !offered {
					impl.NotOffered++
				}
				// check block 100 is below the perform block 120: withheld for both upkeep types in either state
				ps = append(ps, ocr2keepers.UpkeepPayload{UpkeepID: u.UpkeepID, Trigger: u.Trigger, WorkID: u.WorkID})
				rs = append(rs, ocr2keepers.CheckResult{UpkeepID: u.UpkeepID, Trigger: u.Trigger, WorkID: u.WorkID})
				if i >= in.Events { // a performed conditional may be proposed again
					cs = append(cs, ocr2keepers.CoordinatedBlockProposal{UpkeepID: u.UpkeepID, Trigger: u.Trigger, WorkID: u.WorkID})
				}
			}
			impl.NotWithheld += len(must(c.PreProcess(ctx, ps))) + len(must(c.FilterResults(rs))) + len(must(c.FilterProposals(cs)))
		}
		c.Close()
		synctest.Wait()
	})
	return impl
}

func c06RaceCases(t *testing.T, em *Emitter) {
	{
		in := c06CapInput{Kind: "capacity", Works: 1<<18 + 1000, Pad: 1<<16 + 500, Events: 64}
		em.Emit("volume", in, c06Capacity(t, in))
	}
	{
		n := tierN(30000, 300000)
		em.Emit("stress", c06RaceInput{Kind: "cache-read-race", Trials: n}, c06RaceImpl{Lost: c06CacheReadRace(n)})
		m := tierN(3000, 30000)
		em.Emit("stress", c06RaceInput{Kind: "coordinator-read-race", Trials: m}, c06RaceImpl{Lost: c06CoordReadRace(t, m)})
	}
	c06LinCases(t, em)
	if em.prop == "C06" {
		k := tierN(2000, 20000)
		em.Emit("stress", c06RaceInput{Kind: "coordinator-poll-race", Trials: k}, c06RaceImpl{Lost: c06PollRace(t, k)})
	}
	n := tierN(30000, 300000)
	em.Emit("stress", c06RaceInput{Kind: "cache-race", Trials: n}, c06RaceImpl{Lost: c06CacheRace(n)})
	m := tierN(10000, 100000)
	em.Emit("stress", c06RaceInput{Kind: "coordinator-gc-race", Trials: m}, c06RaceImpl{Lost: c06CoordRace(t, m)})
}

// ---------------------------------------------------------------- entry points

func c06RunAll(t *testing.T, prop string, edge []c06Input, gen func(r *Rng, em *Emitter, i int) c06Input, n int) {
	em := NewEmitter(t, prop)
	defer em.Close()
	run := func(src string, in c06Input) {
		idx := in.normalise()
		synctest.Test(t, func(t *testing.T) { em.Emit(src, in, c06Run(t, in, idx)) })
	}
	names, raws, replayOnly := corpusInputs(t, prop)
	for i, raw := range raws {
		var fc c07FlowInput
		if json.Unmarshal(raw, &fc) == nil && fc.Kind == "flow" { // replay of a flow case
			synctest.Test(t, func(t *testing.T) { em.Emit(names[i], fc, c07FlowRun(t, fc)) })
			continue
		}
		var cc c06CapInput
		if json.Unmarshal(raw, &cc) == nil && cc.Kind == "capacity" {
			em.Emit(names[i], cc, c06Capacity(t, cc))
			continue
		}
		var lc c06LinInput
		if json.Unmarshal(raw, &lc) == nil && lc.Kind == "batch-race" {
			em.Emit(names[i], lc, c06LinRace(t, lc))
			continue
		}
		var rc c06RaceInput
		if json.Unmarshal(raw, &rc) == nil && rc.Kind != "" { // replay of a stress case
			if rc.Kind == "cache-race" {
				em.Emit(names[i], rc, c06RaceImpl{Lost: c06CacheRace(rc.Trials)})
			} else if rc.Kind == "cache-read-race" {
				em.Emit(names[i], rc, c06RaceImpl{Lost: c06CacheReadRace(rc.Trials)})
			} else if rc.Kind == "coordinator-read-race" {
				em.Emit(names[i], rc, c06RaceImpl{Lost: c06CoordReadRace(t, rc.Trials)})
			} else if rc.Kind == "coordinator-poll-race" {
				em.Emit(names[i], rc, c06RaceImpl{Lost: c06PollRace(t, rc.Trials)})
			} else {
				em.Emit(names[i], rc, c06RaceImpl{Lost: c06CoordRace(t, rc.Trials)})
			}
			continue
		}
		var in c06Input
		if err := json.Unmarshal(raw, &in); err != nil {
			t.Fatalf("%s: %v", names[i], err)
		}
		run(names[i], in)
	}
	if replayOnly {
		return
	}
	for _, in := range edge {
		run("edge", in)
	}
	c06RaceCases(t, em)
	if prop == "C07" {
		c07FlowAll(t, em)
	}
	r := NewRng(seed())
	for i := 0; i < n; i++ {
		run("gen", gen(r, em, i))
	}
}

func TestC06(t *testing.T) {
	c06RunAll(t, "C06", c06Edge(), func(r *Rng, em *Emitter, i int) c06Input {
		plugin := i%8 == 7
		em.Hit(fmt.Sprintf("mode:plugin=%t", plugin))
		return c06GenCase(r, em, false, plugin)
	}, tierN(5000, 60000))
}

func TestC07(t *testing.T) {
	c06RunAll(t, "C07", c07Edge(), func(r *Rng, em *Emitter, i int) c06Input {
		return c06GenCase(r, em, true, false)
	}, tierN(3000, 30000))
}
