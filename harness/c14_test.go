package harness

import (
	"bufio"
	"context"
	"encoding/json"
	"fmt"
	"os"
	"os/exec"
	"runtime"
	"strconv"
	"strings"
	"sync"
	"sync/atomic"
	"testing"
	"testing/synctest"
	"time"

	"github.com/smartcontractkit/chainlink-automation/pkg/util"
)

// C14 — Parallel job runs always finish and deliver each job's result exactly once.
//
// The REAL util.WorkerGroup / util.RunJobs run inside a testing/synctest bubble with
// un-timed goroutines: 1..4 concurrent RunJobs callers, a stopper / canceller goroutine
// that yields k times (runtime.Gosched) and then calls Stop() and/or cancels the callers'
// contexts, job functions that return at once, yield, block on their ctx, HOLD (wait until
// the harness releases them: whenever every goroutine is durably blocked the holding jobs
// are released, so the workers are saturated wave after wave and the maximum number of job
// functions running at once measures the group's real capacity), or PANIC (`panicAt`; the
// worker recovers the panic into an error result; the panic value names the job so that the
// error result is identified and exactly-once delivery is checked for it too).
// synctest.Wait() returns when every goroutine of the bubble is durably blocked; a RunJobs
// call that has not returned at that point can never return: an EXACT deadlock verdict.
//
// Crash safety: a stuck RunJobs leaves goroutines behind that nothing can release
// (sync.WaitGroup.Wait), the bubble then ends with "deadlock: main bubble goroutine has
// exited but blocked goroutines remain".  Therefore (1) the verdict is written BEFORE any
// release is attempted, (2) the panic of the bubble is recovered, and (3) the cases run in
// CHILD PROCESSES (the test binary re-executed with VERIF_C14_CHILD=lo:hi) that append one
// line per case to a file and flush it before they try to leave the bubble; if a child dies
// the parent keeps what was written, marks the case, and restarts after it.
// VERIF_C14_INPROC=1 runs everything in the parent (debugging); VERIF_C14_CHUNK sets the
// number of cases per child; VERIF_C14_SELFTEST_DIE_AT=<case> makes the child exit right
// after a verdict line of that case (self-test of the crash path: the parent must keep
// the verdict, mark the case `crashed`, and go on with the next case in a new child).
//
// Observation without hooks in /repo: Do cannot be wrapped, so acceptance is observed
// through job function invocations (`started`), results (`delivered`, by job index; a
// result whose job function was skipped by the worker has zero data: `anon`) and the fact
// that RunJobs submits in order and stops at the first refusal (see Spec/C14.lean).

type c14Input struct {
	Workers    int     `json:"workers"`
	Jobs       []int   `json:"jobs"`                 // jobs per RunJobs caller (len = number of callers)
	K          int     `json:"k"`                    // scheduler yields of the stopper before it acts
	Mode       string  `json:"mode"`                 // none | stop | cancel | both | stop-before | cancel-before | stop-after | cancel-after
	JobKind    string  `json:"jobKind"`              // plain | yield | block | mixed | hold (non-panicking jobs)
	PanicAt    [][]int `json:"panicAt"`              // per caller: indices of the jobs whose job function panics
	Stagger    []int   `json:"stagger"`              // yields of caller i before it calls RunJobs
	Salt       uint64  `json:"salt"`                 // per-job choices for mixed/yield kinds
	DeadlineMs []int   `json:"deadlineMs,omitempty"` // caller i's ctx carries a DEADLINE this many virtual ms after the start (0: plain cancellable ctx)
	StopJobs   [][]int `json:"stopJobs,omitempty"`   // per caller: job indices that call Stop() on the group themselves …
	StopWhere  string  `json:"stopWhere,omitempty"`  // … from inside the job function ("job", default) or from the result callback ("res")
	Mercury    []bool  `json:"mercury,omitempty"`    // runner-v2: the mercuryEnabled flag caller i passes to CheckUpkeep
	StartAtMs  []int   `json:"startAtMs,omitempty"`  // timed history: caller i calls RunJobs at this virtual time (submission waves with quiet periods in between)
	LongMs     int     `json:"longMs,omitempty"`     // timed history: base duration (virtual ms) of a long job (jobKind long / long-mixed)
	StopAtMs   int     `json:"stopAtMs,omitempty"`   // timed history: Stop / cancel is injected at this virtual time (instead of after k yields)
	Via        string  `json:"via,omitempty"`        // "" = util.NewWorkerGroup directly | runner-v3 | runner-v2: the group as the runner's constructor builds it (Jobs = batches per CheckUpkeeps caller)
	PerTick    int     `json:"perTick,omitempty"`    // delegate-v3: payloads the log provider returns on every poll of the flow
	Ticks      int     `json:"ticks,omitempty"`      // delegate-v3: polls to let happen
	RecPerTick int     `json:"recPerTick,omitempty"` // delegate-v3: recovery proposals the recoverable provider returns on every poll (0: none)
	Unset      bool    `json:"unset,omitempty"`      // delegate-v3: MaxServiceWorkers left at 0 (Workers then holds the default that applies)
	Queue      int     `json:"queue,omitempty"`      // runner: WorkerQueueLength (!= Workers)
	Trace      bool    `json:"trace,omitempty"`      // record the verif hook events of the run (needs the hooks in /repo: c14_trace_test.go)
	Ops        []c14Op `json:"ops,omitempty"`        // direct: the calls on the group's exported API / on a util.Queue, in order (c14_direct_test.go)
	// VOLUME (c14_volume_test.go): a slow reader.  The result function of caller i PARKS at its 1st, (1+n)th,
	// (1+2n)th … call (n = ResHoldEvery[i]; 0: never) until the harness releases it: when every goroutine of
	// the bubble is durably blocked and no job function is holding — i.e. the workers have finished
	// everything they can, all of it stored for a reader that has not come back — or, with ResLag = m > 0,
	// also at every m-th wave of released job functions.  ResMs: the result function takes that many
	// virtual ms per result (timed history: a reader with a fixed rate against workers with theirs).
	ResHoldEvery []int `json:"resHoldEvery,omitempty"`
	ResLag       int   `json:"resLag,omitempty"`
	ResMs        int   `json:"resMs,omitempty"`
}

type c14Caller struct {
	Returned          bool  `json:"returned"`          // RunJobs had returned when all goroutines were durably blocked
	Delivered         []int `json:"delivered"`         // job indices of the results handed to resFunc (job function was run), in order
	Anon              int   `json:"anon"`              // results with zero data: the worker saw its ctx cancelled and did not run the job
	Started           []int `json:"started"`           // job indices for which the job function was invoked, in order
	DeliveredAtReturn int   `json:"deliveredAtReturn"` // resFunc calls that had happened when RunJobs returned (-1: never returned)
	Late              int   `json:"late"`              // resFunc calls after RunJobs returned
	Panicked          []int `json:"panicked"`          // job indices whose job function panicked
	ErrDelivered      []int `json:"errDelivered"`      // job indices delivered as the error result of a recovered panic (also in Delivered)
}

type c14Impl struct {
	Callers    []c14Caller `json:"callers"`
	MaxConc    int         `json:"maxConc"`    // max number of job functions running at once
	Stuck      bool        `json:"stuck"`      // some RunJobs not returned with every goroutine durably blocked (before any release)
	Leaked     int         `json:"leaked"`     // bubble goroutines still alive after Stop + cancel of everything
	Deadlocked bool        `json:"deadlocked"` // the bubble could not end (recovered panic of synctest)
	Phase      string      `json:"phase"`      // "verdict" (written before release) | "final"
	Crashed    bool        `json:"crashed"`    // the child process died while running this case
	Panic      string      `json:"panic,omitempty"`
	Events     []c14Ev     `json:"events,omitempty"` // the hook calls of the run, in log order (trace cases only)
	Outs       []c14Out    `json:"outs,omitempty"`   // direct cases: the outcome of every call
}

// c14Ev is one call of an instrumentation hook: the point and up to two numbers (caller index,
// worker execution, count, worker number); JSON form ["point",a,b,c].
type c14Ev struct {
	P       string
	A, B, C int
}

func (e c14Ev) MarshalJSON() ([]byte, error) { return json.Marshal([]any{e.P, e.A, e.B, e.C}) }
func (e *c14Ev) UnmarshalJSON(b []byte) error {
	var raw []json.RawMessage
	if err := json.Unmarshal(b, &raw); err != nil || len(raw) != 4 {
		return fmt.Errorf("bad event %s", b)
	}
	if err := json.Unmarshal(raw[3], &e.C); err != nil {
		return err
	}
	if err := json.Unmarshal(raw[0], &e.P); err != nil {
		return err
	}
	if err := json.Unmarshal(raw[1], &e.A); err != nil {
		return err
	}
	return json.Unmarshal(raw[2], &e.B)
}

// c14TraceBegin is set by c14_trace_test.go, which exists only when /repo carries the verif hooks
// (util.SetVerifHook).  It starts recording and returns a function to log the harness's own
// actions (ctx cancellation) and one that stops recording and returns the log.
var c14TraceBegin func(in c14Input) (env func(point string, a int), end func() []c14Ev)

type c14CallerKey struct{}

// c14Blocking: what a job function does before it returns (or panics): yield `yields` times, then
// either return, or wait for its ctx (`block`), or wait until the harness releases it (`hold`:
// every time all goroutines of the bubble are durably blocked the harness releases the jobs that
// are holding, so the workers are saturated again and again and the maximum number of job
// functions running at once is an exact observation of the group's real capacity).
func c14Blocking(in c14Input, caller, job int) (yields int, block bool, hold bool) {
	defer func() {
		// a job that waits for a cancellation that never comes is not a defect of the worker group
		if !c14WillRelease(in.Mode) {
			block = false
		}
	}()
	h := in.Salt + uint64(caller)*0x9E3779B97F4A7C15 + uint64(job)*0xBF58476D1CE4E5B9
	h ^= h >> 29
	h *= 0x94D049BB133111EB
	h ^= h >> 32
	switch in.JobKind {
	case "yield":
		return int(h % 4), false, false
	case "block":
		return 0, true, false
	case "hold":
		return int(h % 3), false, true
	case "mixed":
		switch h % 5 {
		case 0:
			return 0, false, false
		case 1:
			return int(h>>8) % 5, false, false
		case 2:
			return 0, true, false
		case 3:
			return 0, false, true
		default:
			return 1, false, false
		}
	}
	return 0, false, false
}

// c14LongMs: virtual duration of a long job (0: not a long job).  A long job sleeps (or ends with
// its ctx): it holds its worker while virtual time passes and nothing may be submitted.
func c14LongMs(in c14Input, caller, job int) int {
	if in.LongMs <= 0 {
		return 0
	}
	h := in.Salt*31 + uint64(caller)*0x9E3779B97F4A7C15 + uint64(job)*0xBF58476D1CE4E5B9
	h ^= h >> 31
	switch in.JobKind {
	case "long", "long-stubborn":
		return in.LongMs + int(h%1500)
	case "long-mixed":
		if h%3 != 0 {
			return in.LongMs + int(h%1500)
		}
	}
	return 0
}

func (in c14Input) timed() bool {
	return len(in.StartAtMs) > 0 || in.LongMs > 0 || in.StopAtMs > 0 || in.hasDeadline() || in.ResMs > 0
}

// slowReader: some result function parks or takes time
func (in c14Input) slowReader() bool {
	for _, e := range in.ResHoldEvery {
		if e > 0 {
			return true
		}
	}
	return in.ResMs > 0
}

func c14Panics(in c14Input, caller, job int) bool {
	if caller >= len(in.PanicAt) {
		return false
	}
	for _, p := range in.PanicAt[caller] {
		if p == job {
			return true
		}
	}
	return false
}

const c14PanicTag = "c14job:"

// virtual time after which a timed history must be over (waves start within 10 s, jobs take < 8 s)
const c14TimeLimit = 10 * time.Minute

// hasDeadline / hasStopJobs: the run ends contexts by itself
func (in c14Input) hasDeadline() bool {
	for _, d := range in.DeadlineMs {
		if d > 0 {
			return true
		}
	}
	return false
}
func (in c14Input) hasStopJobs() bool {
	for _, l := range in.StopJobs {
		if len(l) > 0 {
			return true
		}
	}
	return false
}
func (in c14Input) stopsAt(caller, job int) bool {
	if caller >= len(in.StopJobs) {
		return false
	}
	for _, j := range in.StopJobs[caller] {
		if j == job {
			return true
		}
	}
	return false
}

func c14WillRelease(mode string) bool {
	switch mode {
	case "stop", "cancel", "both", "stop-before", "cancel-before":
		return true
	}
	return false
}

// c14BubbleGoroutines counts the goroutines of the calling goroutine's bubble.
func c14BubbleGoroutines() int {
	buf := make([]byte, 1<<20)
	for {
		n := runtime.Stack(buf, true)
		if n < len(buf) {
			buf = buf[:n]
			break
		}
		buf = make([]byte, 2*len(buf))
	}
	mine := ""
	c := 0
	for i, g := range strings.Split(string(buf), "\n\n") {
		hdr := g
		if j := strings.IndexByte(g, '\n'); j >= 0 {
			hdr = g[:j]
		}
		k := strings.Index(hdr, "synctest bubble ")
		if k < 0 {
			continue
		}
		id := strings.TrimRight(hdr[k:], "]:")
		if i == 0 {
			mine = id
		}
		if id == mine {
			c++
		}
	}
	return c
}

// c14Run executes one case on the real worker group.  `verdict` is called with the
// observations as soon as the deadlock verdict is known and before anything is released.
func c14Run(t *testing.T, in c14Input, verdict func(c14Impl)) (impl c14Impl) {
	if in.Via == "direct" {
		return c14RunDirect(t, in)
	}
	if in.Via == "delegate-v3" {
		return c14RunDelegate(t, in, verdict)
	}
	if in.Via != "" {
		return c14RunRunner(t, in, verdict)
	}
	n := len(in.Jobs)
	type callerState struct {
		mu        sync.Mutex
		delivered []int
		anon      int
		started   []int
		panicked  []int
		errDeliv  []int
		returned  atomic.Bool
		atReturn  int
		late      int
	}
	// jobs that are holding, waiting to be released by the harness
	var holdMu sync.Mutex
	var holders []chan struct{}
	takeHolders := func() []chan struct{} {
		holdMu.Lock()
		defer holdMu.Unlock()
		hs := holders
		holders = nil
		return hs
	}
	// result functions that are parked (slow reader), waiting to be released by the harness
	var resHolders []chan struct{}
	var noPark atomic.Bool
	takeResHolders := func() []chan struct{} {
		holdMu.Lock()
		defer holdMu.Unlock()
		hs := resHolders
		resHolders = nil
		return hs
	}
	cs := make([]*callerState, n)
	for i := range cs {
		cs[i] = &callerState{atReturn: -1}
	}
	var conc, maxConc atomic.Int64
	snapshot := func(phase string) c14Impl {
		out := c14Impl{Phase: phase, MaxConc: int(maxConc.Load())}
		for _, c := range cs {
			c.mu.Lock()
			cc := c14Caller{Returned: c.returned.Load(), Delivered: append([]int{}, c.delivered...), Anon: c.anon,
				Started: append([]int{}, c.started...), DeliveredAtReturn: c.atReturn, Late: c.late,
				Panicked: append([]int{}, c.panicked...), ErrDelivered: append([]int{}, c.errDeliv...)}
			c.mu.Unlock()
			out.Callers = append(out.Callers, cc)
			if !cc.Returned {
				out.Stuck = true
			}
		}
		return out
	}
	defer func() {
		if r := recover(); r != nil {
			msg := fmt.Sprint(r)
			if strings.Contains(msg, "deadlock: main bubble goroutine has exited") {
				impl.Deadlocked = true
			} else {
				impl.Panic = msg
			}
		}
	}()
	synctest.Test(t, func(t *testing.T) {
		base := c14BubbleGoroutines()
		tenv := func(string, int) {}
		var tend func() []c14Ev
		if in.Trace && c14TraceBegin != nil {
			tenv, tend = c14TraceBegin(in)
		}
		grp := util.NewWorkerGroup[int](in.Workers, 10)
		ctxs := make([]context.Context, n)
		cancels := make([]context.CancelFunc, n)
		for i := range ctxs {
			base := context.WithValue(context.Background(), c14CallerKey{}, i)
			if i < len(in.DeadlineMs) && in.DeadlineMs[i] > 0 {
				// a DEADLINE, not a cancellation: the context ends by itself at that virtual time
				ctxs[i], cancels[i] = context.WithTimeout(base, time.Duration(in.DeadlineMs[i])*time.Millisecond+211*time.Microsecond)
			} else {
				ctxs[i], cancels[i] = context.WithCancel(base)
			}
		}
		cancelAll := func() {
			for i, c := range cancels {
				tenv("env.cancel-pre", i)
				c()
				tenv("env.cancel", i)
			}
		}
		// Every Stop() of the run goes through stop(): WorkerGroup.Stop serialises its callers on a
		// sync.Once, and a goroutine blocked on that mutex is not "durably blocked" for synctest —
		// synctest.Wait would never return and the deadlock verdict would be lost.  The callers that
		// come second wait on a channel instead (the same blocking, visible to synctest).
		var stopStarted atomic.Bool
		stopDone := make(chan struct{})
		stop := func() {
			if !stopStarted.CompareAndSwap(false, true) {
				<-stopDone
				return
			}
			grp.Stop()
			close(stopDone)
		}
		stopWedged := func() bool {
			if !stopStarted.Load() {
				return false
			}
			select {
			case <-stopDone:
				return false
			default:
				return true
			}
		}
		inject := func(mode string) {
			switch mode {
			case "stop", "stop-before", "stop-after":
				stop()
			case "cancel", "cancel-before", "cancel-after":
				cancelAll()
			case "both":
				// two goroutines so that Stop and the cancellations race as well
				go cancelAll()
				stop()
			}
		}
		if strings.HasSuffix(in.Mode, "-before") {
			inject(in.Mode)
			synctest.Wait()
		}
		for i := 0; i < n; i++ {
			i := i
			c := cs[i]
			jobs := make([]int, in.Jobs[i])
			for j := range jobs {
				jobs[j] = j + 1 // 0 is the zero value of a result whose job function was not run
			}
			stagger := 0
			if i < len(in.Stagger) {
				stagger = in.Stagger[i]
			}
			resEvery, resCalls := 0, 0 // (resCalls: only the reader goroutine of this caller touches it)
			if i < len(in.ResHoldEvery) {
				resEvery = in.ResHoldEvery[i]
			}
			go func() {
				if i < len(in.StartAtMs) && in.StartAtMs[i] > 0 {
					time.Sleep(time.Duration(in.StartAtMs[i])*time.Millisecond + 137*time.Microsecond)
				}
				for y := 0; y < stagger; y++ {
					runtime.Gosched()
				}
				util.RunJobs(ctxs[i], grp, jobs,
					func(ctx context.Context, j int) (int, error) {
						cur := conc.Add(1)
						for {
							m := maxConc.Load()
							if cur <= m || maxConc.CompareAndSwap(m, cur) {
								break
							}
						}
						defer conc.Add(-1)
						c.mu.Lock()
						c.started = append(c.started, j-1)
						c.mu.Unlock()
						yields, block, hold := c14Blocking(in, i, j-1)
						for y := 0; y < yields; y++ {
							runtime.Gosched()
						}
						if c14Panics(in, i, j-1) {
							// recovered by the worker into an error result; the panic value names the job
							c.mu.Lock()
							c.panicked = append(c.panicked, j-1)
							c.mu.Unlock()
							panic(fmt.Sprintf("%s%d", c14PanicTag, j-1))
						}
						if in.StopWhere != "res" && in.stopsAt(i, j-1) {
							// a job that shuts the service down itself (fatal condition): Stop from inside a job function
							stop()
						}
						if d := c14LongMs(in, i, j-1); d > 0 {
							if in.JobKind == "long-stubborn" {
								// finishes the call in flight before it looks at its context
								time.Sleep(time.Duration(d) * time.Millisecond)
							} else {
								tm := time.NewTimer(time.Duration(d) * time.Millisecond)
								select {
								case <-tm.C:
								case <-ctx.Done():
									tm.Stop()
									return j, ctx.Err()
								}
							}
						}
						if block {
							<-ctx.Done()
							return j, ctx.Err()
						}
						if hold {
							ch := make(chan struct{})
							holdMu.Lock()
							holders = append(holders, ch)
							holdMu.Unlock()
							select {
							case <-ch:
							case <-ctx.Done():
							}
						}
						return j, nil
					},
					func(v int, err error) {
						c.mu.Lock()
						if v == 0 {
							id := -1
							if err != nil {
								if k := strings.Index(err.Error(), c14PanicTag); k >= 0 {
									if n, e := strconv.Atoi(err.Error()[k+len(c14PanicTag):]); e == nil {
										id = n
									}
								}
							}
							if id >= 0 {
								// the error result of a recovered panic, identified by the panic value
								c.delivered = append(c.delivered, id)
								c.errDeliv = append(c.errDeliv, id)
							} else {
								c.anon++
							}
						} else {
							c.delivered = append(c.delivered, v-1)
						}
						if c.returned.Load() {
							c.late++
						}
						c.mu.Unlock()
						if in.StopWhere == "res" && v > 0 && in.stopsAt(i, v-1) {
							stop() // Stop from inside the result callback
						}
						// a slow reader: the result function is held up (lock, log write, cache update) while the
						// workers go on storing results
						resCalls++
						if resEvery > 0 && (resCalls-1)%resEvery == 0 && !noPark.Load() {
							ch := make(chan struct{})
							holdMu.Lock()
							resHolders = append(resHolders, ch)
							holdMu.Unlock()
							<-ch
						}
						if in.ResMs > 0 && !noPark.Load() {
							time.Sleep(time.Duration(in.ResMs) * time.Millisecond)
						}
					})
				c.mu.Lock()
				c.atReturn = len(c.delivered) + c.anon
				c.mu.Unlock()
				c.returned.Store(true)
			}()
		}
		var stopperDone atomic.Bool
		stopperDone.Store(true)
		if in.Mode == "stop" || in.Mode == "cancel" || in.Mode == "both" {
			stopperDone.Store(false)
			go func() {
				defer stopperDone.Store(true)
				if in.StopAtMs > 0 {
					time.Sleep(time.Duration(in.StopAtMs)*time.Millisecond + 61*time.Microsecond)
				}
				for y := 0; y < in.K; y++ {
					runtime.Gosched()
				}
				inject(in.Mode)
			}()
		}
		t0 := time.Now()
		allReturned := func() bool {
			for _, c := range cs {
				if !c.returned.Load() {
					return false
				}
			}
			return true
		}
		wave := 0
		for {
			synctest.Wait()
			// everything is durably blocked; jobs that are holding occupy their workers: release them
			// (the next wave saturates the workers again) until no job is holding any more
			hs := takeHolders()
			if len(hs) > 0 {
				wave++
				for _, h := range hs {
					close(h)
				}
				if in.ResLag > 0 && wave%in.ResLag == 0 {
					for _, h := range takeResHolders() {
						close(h)
					}
				}
				continue
			}
			// no job function is holding: whatever the workers could finish is stored; now the parked
			// result functions (slow readers) come back
			if rs := takeResHolders(); len(rs) > 0 {
				for _, h := range rs {
					close(h)
				}
				continue
			}
			// timed history: let virtual time pass (long jobs, later submission waves) until every
			// caller has returned; bounded: whoever has not returned after c14TimeLimit is stuck
			if !in.timed() || (allReturned() && stopperDone.Load()) || time.Since(t0) > c14TimeLimit {
				break
			}
			time.Sleep(97 * time.Millisecond)
		}
		// every goroutine of the bubble is durably blocked: the verdict is exact
		impl = snapshot("verdict")
		if impl.Stuck && verdict != nil {
			verdict(impl) // FIRST record, then try to release
		}
		noPark.Store(true) // the verdict is taken: from here on the result functions neither park nor take time
		if strings.HasSuffix(in.Mode, "-after") {
			inject(in.Mode)
			synctest.Wait()
		}
		// release everything that can be released
		cancelAll()
		synctest.Wait()
		if !stopWedged() {
			stop() // (a Stop that never returned must not be waited for: the verdict is already recorded)
		}
		synctest.Wait()
		v := impl
		impl = snapshot("final")
		impl.Stuck = v.Stuck
		for i := range impl.Callers {
			// "returned" is the verdict taken before the release
			impl.Callers[i].Returned = v.Callers[i].Returned
		}
		impl.Leaked = c14BubbleGoroutines() - base
		if tend != nil {
			impl.Events = tend()
		}
	})
	return impl
}

// ---------------------------------------------------------------- cases

func c14Edge() []c14Input {
	return []c14Input{
		{Workers: 1, Jobs: []int{0}, Mode: "none", JobKind: "plain"},
		{Workers: 1, Jobs: []int{1}, Mode: "none", JobKind: "plain"},
		{Workers: 1, Jobs: []int{1}, Mode: "stop-before", JobKind: "plain"},
		{Workers: 1, Jobs: []int{1}, Mode: "cancel-before", JobKind: "plain"},
		{Workers: 1, Jobs: []int{1}, Mode: "stop-after", JobKind: "plain"},
		{Workers: 2, Jobs: []int{30}, K: 7, Mode: "stop", JobKind: "plain"}, // the shape of the design-time stress
		{Workers: 2, Jobs: []int{30}, K: 45, Mode: "stop", JobKind: "plain"},
		{Workers: 1, Jobs: []int{1}, K: 3, Mode: "stop", JobKind: "plain"}, // the model's witness shape (schedOld)
		{Workers: 64, Jobs: []int{1000}, Mode: "none", JobKind: "plain"},
		{Workers: 64, Jobs: []int{1000, 1000, 1000, 1000}, K: 300, Mode: "stop", JobKind: "yield", Salt: 7},
		{Workers: 1, Jobs: []int{1000}, K: 200, Mode: "cancel", JobKind: "plain"},
		{Workers: 3, Jobs: []int{5, 5, 5, 5}, K: 20, Mode: "both", JobKind: "block"},
		{Workers: 4, Jobs: []int{4, 5, 3}, Mode: "cancel-after", JobKind: "yield", Salt: 3},
		{Workers: 2, Jobs: []int{0, 0, 0, 0}, K: 1, Mode: "stop", JobKind: "plain"},
		// a job panics while another worker is busy, then more simultaneous work than workers
		{Workers: 3, Jobs: []int{8}, Mode: "none", JobKind: "hold", PanicAt: [][]int{{1}}},
		{Workers: 3, Jobs: []int{12}, Mode: "none", JobKind: "hold", PanicAt: [][]int{{4, 5}}},
		{Workers: 4, Jobs: []int{7, 7}, Mode: "none", JobKind: "hold", PanicAt: [][]int{{0}, {2}}, Salt: 5},
		{Workers: 8, Jobs: []int{40}, Mode: "none", JobKind: "hold", PanicAt: [][]int{{3, 9, 10, 25}}},
		{Workers: 1, Jobs: []int{3}, Mode: "none", JobKind: "plain", PanicAt: [][]int{{0, 1, 2}}}, // every job panics
		{Workers: 3, Jobs: []int{10, 10}, K: 30, Mode: "stop", JobKind: "hold", PanicAt: [][]int{{1}, {1, 2}}},
		{Workers: 5, Jobs: []int{20}, K: 15, Mode: "cancel", JobKind: "mixed", PanicAt: [][]int{{0, 6}}, Salt: 11},
		{Workers: 2, Jobs: []int{5}, Mode: "stop-after", JobKind: "yield", PanicAt: [][]int{{4}}, Salt: 2},
		// virtual time: a wave of long jobs, a quiet period of 2 s, then more work than workers
		{Workers: 2, Jobs: []int{2, 4}, StartAtMs: []int{0, 2000}, LongMs: 5000, Mode: "none", JobKind: "long"},
		{Workers: 3, Jobs: []int{2, 5, 4}, StartAtMs: []int{0, 1500, 4200}, LongMs: 3000, Mode: "none", JobKind: "long", Salt: 3},
		{Workers: 1, Jobs: []int{1, 2}, StartAtMs: []int{0, 3100}, LongMs: 6000, Mode: "stop", StopAtMs: 4000, JobKind: "long"},
		{Workers: 4, Jobs: []int{4, 6}, StartAtMs: []int{0, 1100}, LongMs: 2000, Mode: "cancel", StopAtMs: 1500, JobKind: "long-mixed", Salt: 8},
		// a DEADLINE on the caller's ctx that expires while accepted jobs are in flight
		{Workers: 2, Jobs: []int{6}, DeadlineMs: []int{100}, LongMs: 300, Mode: "none", JobKind: "long-stubborn"},
		{Workers: 1, Jobs: []int{2, 3}, StartAtMs: []int{0, 100}, DeadlineMs: []int{0, 600}, LongMs: 2000, Mode: "none", JobKind: "long"},
		// Stop() from inside a job function while every worker is held by such a job and more is queued
		{Workers: 1, Jobs: []int{2}, StopJobs: [][]int{{0}}, Mode: "none", JobKind: "plain"},
		{Workers: 1, Jobs: []int{25}, StopJobs: [][]int{{0}}, Mode: "none", JobKind: "plain"},
		{Workers: 2, Jobs: []int{25}, StopJobs: [][]int{{0, 1}}, Mode: "none", JobKind: "plain"},
		{Workers: 2, Jobs: []int{10}, StopJobs: [][]int{{3}}, StopWhere: "res", Mode: "none", JobKind: "yield", Salt: 1},
		// v2 runner: concurrent callers with different request flags
		{Via: "runner-v2", Workers: 3, Queue: 100, Jobs: []int{8, 8}, Mercury: []bool{true, false}, Mode: "none", JobKind: "hold"},
		// through plugin.NewDelegate: a configured limit below the default, more batches per tick than workers
		{Via: "delegate-v3", Workers: 2, Queue: 0, PerTick: 100, Ticks: 2, LongMs: 60, Mode: "none", JobKind: "long"},
		{Via: "delegate-v3", Workers: 5, Queue: 10, PerTick: 100, Ticks: 2, LongMs: 60, Mode: "none", JobKind: "long"},
		// through the runners' constructors: Workers != WorkerQueueLength, more batches than workers
		{Via: "runner-v3", Workers: 3, Queue: 1000, Jobs: []int{36}, Mode: "none", JobKind: "hold"},
		{Via: "runner-v3", Workers: 2, Queue: 100, Jobs: []int{5, 5, 5}, Mode: "none", JobKind: "hold", Salt: 4},
		{Via: "runner-v3", Workers: 8, Queue: 3, Jobs: []int{20}, Mode: "stop-after", JobKind: "hold"},
		{Via: "runner-v2", Workers: 3, Queue: 1000, Jobs: []int{12}, Mode: "none", JobKind: "hold"},
		{Via: "runner-v2", Workers: 1, Queue: 7, Jobs: []int{4, 0, 3}, Mode: "cancel-after", JobKind: "yield", Salt: 9},
		// Close() while pipeline calls that only come back with their context are in flight
		{Via: "runner-v3", Workers: 2, Queue: 100, Jobs: []int{5}, K: 60, Mode: "stop", JobKind: "block"},
		{Via: "runner-v3", Workers: 3, Queue: 10, Jobs: []int{2}, K: 200, Mode: "stop", JobKind: "block"},
		{Via: "runner-v2", Workers: 2, Queue: 100, Jobs: []int{5}, K: 60, Mode: "stop", JobKind: "block"},
		{Via: "runner-v3", Workers: 2, Queue: 100, Jobs: []int{4, 3}, K: 40, Mode: "cancel", JobKind: "block"},
	}
}

func c14Gen(r *Rng, i int) c14Input {
	var in c14Input
	ws := []int{1, 1, 2, 2, 3, 4, 8, 16, 63, 64}
	in.Workers = ws[r.Intn(len(ws))]
	if r.Chance(10) {
		in.Workers = r.Range(1, 64)
	}
	callers := 1
	switch r.Intn(10) {
	case 0, 1, 2, 3:
		callers = 1
	case 4, 5, 6:
		callers = 2
	case 7:
		callers = 3
	default:
		callers = 4
	}
	big := r.Chance(3)
	for c := 0; c < callers; c++ {
		var j int
		switch r.Intn(10) {
		case 0:
			j = 0
		case 1:
			j = 1
		case 2:
			j = r.Range(2, 3)
		case 3: // around the worker count
			j = in.Workers + r.Range(-1, 1)
			if j < 0 {
				j = 0
			}
		case 4, 5, 6:
			j = r.Range(4, 40)
		default:
			j = r.Range(10, 80)
		}
		if big {
			j = r.Range(200, 1000)
		}
		in.Jobs = append(in.Jobs, j)
		in.Stagger = append(in.Stagger, r.Intn(4)*r.Intn(10))
	}
	switch m := r.Intn(100); {
	case m < 42:
		in.Mode = "stop"
	case m < 67:
		in.Mode = "cancel"
	case m < 77:
		in.Mode = "both"
	case m < 85:
		in.Mode = "none"
	case m < 89:
		in.Mode = "stop-before"
	case m < 92:
		in.Mode = "cancel-before"
	case m < 96:
		in.Mode = "stop-after"
	default:
		in.Mode = "cancel-after"
	}
	// the injection point is SWEPT: every k in 0..300 is hit by consecutive cases; some beyond
	in.K = i % 301
	if big || r.Chance(5) {
		in.K = r.Range(0, 6000)
	}
	switch in.Mode {
	case "none", "stop-before", "cancel-before", "stop-after", "cancel-after":
		in.K = 0
	}
	switch k := r.Intn(100); {
	case k < 38:
		in.JobKind = "plain"
	case k < 58:
		in.JobKind = "yield"
	case k < 70:
		in.JobKind = "mixed"
	case k < 80:
		in.JobKind = "block"
	default:
		in.JobKind = "hold"
	}
	if !c14WillRelease(in.Mode) && (in.JobKind == "block" || in.JobKind == "mixed") {
		// a job that waits for a cancellation that never comes is not a defect of the worker group
		in.JobKind = "yield"
	}
	in.Salt = r.U64() % 1_000_000
	// panicking job functions: in a quarter of the cases (more often with holding jobs, where the
	// workers are saturated after the panic), a chosen fraction of the jobs, early positions favoured
	if r.Chance(25) || (in.JobKind == "hold" && r.Chance(50)) {
		pct := []int{3, 10, 10, 25, 50, 100}[r.Intn(6)]
		any := false
		for c := range in.Jobs {
			var at []int
			for j := 0; j < in.Jobs[c]; j++ {
				if r.Chance(pct) || (j <= 2 && r.Chance(20)) {
					at = append(at, j)
					any = true
				}
			}
			in.PanicAt = append(in.PanicAt, at)
		}
		if !any {
			in.PanicAt = nil
		}
	}
	return in
}

// c14GenTimed: a history in virtual time: submission waves (callers start at different times) separated
// by quiet periods of 1-5 s in which nothing is submitted while long jobs still hold their workers;
// the later waves bring more simultaneous work than there are workers
func c14GenTimed(r *Rng) c14Input {
	var in c14Input
	in.Workers = []int{1, 2, 2, 3, 3, 4, 5, 8}[r.Intn(8)]
	in.LongMs = r.Range(1500, 6000)
	in.JobKind = "long"
	if r.Chance(30) {
		in.JobKind = "long-mixed"
	}
	waves := r.Range(2, 4)
	at := 0
	for w := 0; w < waves; w++ {
		var j int
		switch {
		case w == 0 && r.Chance(70):
			j = r.Range(1, in.Workers) // the first wave fits on the workers: the loops go idle while it runs
		case r.Chance(20):
			j = r.Range(0, 2)
		default:
			j = r.Range(in.Workers, 2*in.Workers+3)
		}
		in.Jobs = append(in.Jobs, j)
		in.StartAtMs = append(in.StartAtMs, at)
		in.Stagger = append(in.Stagger, 0)
		at += r.Range(1000, 5000) + r.Intn(400) // the quiet period before the next wave
	}
	switch m := r.Intn(10); {
	case m < 7:
		in.Mode = "none"
	case m < 8:
		in.Mode, in.StopAtMs = "stop", r.Range(500, at+2000)
	case m < 9:
		in.Mode, in.StopAtMs = "cancel", r.Range(500, at+2000)
	default:
		in.Mode = "stop-after"
	}
	in.Salt = r.U64() % 1_000_000
	// DEADLINES (not cancellations) on caller contexts, expiring while accepted jobs are in flight or
	// queued behind another caller's long jobs; some job functions finish their call before they look
	// at the context
	if in.Mode == "none" && r.Chance(45) {
		for c := range in.Jobs {
			d := 0
			if c > 0 || r.Chance(50) {
				d = in.StartAtMs[c] + r.Range(1, 4000)
			}
			in.DeadlineMs = append(in.DeadlineMs, d)
		}
		if r.Chance(50) {
			in.JobKind = "long-stubborn"
			if in.LongMs > 3000 {
				in.LongMs = r.Range(300, 3000)
			}
		}
	}
	return in
}

// c14GenJobStop: Stop() is called from INSIDE the run — by a job function (a job that shuts the service
// down) or by the result callback — while other accepted items are queued; sometimes as many stopping
// jobs as there are workers
func c14GenJobStop(r *Rng) c14Input {
	var in c14Input
	in.Workers = []int{1, 1, 2, 2, 3, 4, 8}[r.Intn(7)]
	callers := []int{1, 1, 2, 3}[r.Intn(4)]
	for c := 0; c < callers; c++ {
		in.Jobs = append(in.Jobs, r.Range(1, 4*in.Workers+4))
		in.Stagger = append(in.Stagger, r.Intn(3)*r.Intn(6))
		var at []int
		switch r.Intn(4) {
		case 0: // the first `workers` jobs all stop: every worker is held by a caller of Stop
			for j := 0; j < in.Workers && j < in.Jobs[c]; j++ {
				at = append(at, j)
			}
		case 1:
			at = []int{r.Intn(in.Jobs[c])}
		case 2:
			for j := 0; j < in.Jobs[c]; j++ {
				if r.Chance(30) {
					at = append(at, j)
				}
			}
		default:
			if c == 0 {
				at = []int{0}
			}
		}
		in.StopJobs = append(in.StopJobs, at)
	}
	if !in.hasStopJobs() {
		in.StopJobs[0] = []int{0}
	}
	in.StopWhere = "job"
	if r.Chance(25) {
		in.StopWhere = "res"
	}
	in.Mode = "none" // nothing is injected from outside: the run stops itself
	in.JobKind = []string{"plain", "plain", "yield", "hold", "hold"}[r.Intn(5)]
	in.Salt = r.U64() % 1_000_000
	return in
}

// c14GenRunner: Workers != WorkerQueueLength, more batches in flight than workers, a check pipeline
// that mostly holds (released wave by wave), several concurrent CheckUpkeeps callers
func c14GenRunner(r *Rng) c14Input {
	var in c14Input
	in.Via = "runner-v3"
	if r.Chance(35) {
		in.Via = "runner-v2"
	}
	in.Workers = []int{1, 2, 2, 3, 3, 4, 5, 8, 16}[r.Intn(9)]
	switch r.Intn(5) {
	case 0:
		in.Queue = 1000 // production default (ServiceQueueLength)
	case 1:
		in.Queue = 100
	case 2:
		in.Queue = in.Workers + r.Range(1, 3)
	case 3:
		in.Queue = in.Workers * r.Range(2, 10)
	default:
		in.Queue = r.Range(0, in.Workers-1) // smaller than the number of workers
	}
	callers := []int{1, 1, 2, 3, 4}[r.Intn(5)]
	for c := 0; c < callers; c++ {
		var b int
		switch r.Intn(6) {
		case 0:
			b = r.Range(0, 1)
		case 1:
			b = in.Workers + r.Range(-1, 2)
		default:
			b = r.Range(in.Workers+1, 3*in.Workers+6) // more batches than workers
		}
		if b < 0 {
			b = 0
		}
		in.Jobs = append(in.Jobs, b)
		in.Stagger = append(in.Stagger, r.Intn(3)*r.Intn(8))
	}
	switch m := r.Intn(100); {
	case m < 40:
		in.Mode = "none"
	case m < 65:
		in.Mode = "stop" // Close() while the call has pipeline calls in flight
	case m < 75:
		in.Mode = "cancel"
	case m < 80:
		in.Mode = "both"
	case m < 90:
		in.Mode = "stop-after"
	default:
		in.Mode = "cancel-after"
	}
	if in.Via == "runner-v2" {
		// the request flag of CheckUpkeep: callers of one runner use different values
		for range in.Jobs {
			in.Mercury = append(in.Mercury, r.Chance(50))
		}
	}
	if in.Mode == "stop" || in.Mode == "both" {
		// error results of calls the workers skipped carry no identity: one caller, so that they can be counted for it
		in.Jobs, in.Stagger = in.Jobs[:1], in.Stagger[:1]
		if len(in.Mercury) > 1 {
			in.Mercury = in.Mercury[:1]
		}
	}
	if c14WillRelease(in.Mode) {
		in.K = r.Range(0, 300)
	}
	if c14WillRelease(in.Mode) {
		// calls in flight when Close()/cancel comes: mostly pipelines that obey the context they were given
		switch k := r.Intn(100); {
		case k < 40:
			in.JobKind = "block" // comes back only when its context ends
		case k < 55:
			in.JobKind = "mixed"
		case k < 80:
			in.JobKind = "hold"
		case k < 95:
			in.JobKind = "yield"
		default:
			in.JobKind = "plain"
		}
	} else {
		switch k := r.Intn(100); {
		case k < 65:
			in.JobKind = "hold"
		case k < 85:
			in.JobKind = "yield"
		default:
			in.JobKind = "plain"
		}
	}
	in.Salt = r.U64() % 1_000_000
	return in
}

// c14GenTrace: a case for trace validation: the same generator, sizes cut down
func c14GenTrace(r *Rng, i int) c14Input {
	in := c14Gen(r, i)
	in.Trace = true
	if in.Workers > 16 {
		in.Workers = []int{1, 2, 3, 4, 5, 8, 16}[r.Intn(7)]
	}
	for c := range in.Jobs {
		if in.Jobs[c] > 25 {
			in.Jobs[c] = r.Range(0, 25)
		}
	}
	for c := range in.PanicAt {
		var at []int
		for _, p := range in.PanicAt[c] {
			if c < len(in.Jobs) && p < in.Jobs[c] {
				at = append(at, p)
			}
		}
		in.PanicAt[c] = at
	}
	if in.K > 300 {
		in.K = r.Range(0, 300)
	}
	return in
}

type c14Case struct {
	src string
	in  c14Input
}

func c14Cases(t *testing.T) (cases []c14Case, dist map[string]int) {
	dist = map[string]int{}
	names, raws, replayOnly := corpusInputs(t, "C14")
	for i, raw := range raws {
		var in c14Input
		if err := json.Unmarshal(raw, &in); err != nil {
			t.Fatalf("%s: %v", names[i], err)
		}
		cases = append(cases, c14Case{names[i], in})
	}
	if replayOnly {
		// a replayed interleaving is not reproducible by construction: repeat the case
		for i := 0; i < 400; i++ {
			cases = append(cases, cases[0])
		}
		return
	}
	for _, in := range c14Edge() {
		cases = append(cases, c14Case{"edge", in})
	}
	r := NewRng(seed())
	n := tierN(3000, 60000)
	for i := 0; i < n; i++ {
		in := c14Gen(r, i)
		cases = append(cases, c14Case{"gen", in})
	}
	// histories in virtual time: submission waves with quiet periods while long jobs run
	r4 := NewRng(seed() + 0x71ed)
	for i, nt := 0, tierN(150, 2500); i < nt; i++ {
		cases = append(cases, c14Case{"gen-timed", c14GenTimed(r4)})
	}
	// Stop called from inside a job function / the result callback
	r5 := NewRng(seed() + 0x5709)
	for i, ns := 0, tierN(150, 2500); i < ns; i++ {
		cases = append(cases, c14Case{"gen-jobstop", c14GenJobStop(r5)})
	}
	// the runner as the plugin's composition root (plugin.NewDelegate) configures it
	r6 := NewRng(seed() + 0xde1e)
	for i, nd := 0, tierN(60, 800); i < nd; i++ {
		cases = append(cases, c14Case{"gen-delegate", c14GenDelegate(r6)})
	}
	// the worker group as the runners' public constructors build it (own random stream)
	r3 := NewRng(seed() + 0x4a11)
	for i, nr := 0, tierN(200, 3000); i < nr; i++ {
		cases = append(cases, c14Case{"gen-runner", c14GenRunner(r3)})
	}
	// the group's exported API and util.Queue driven call by call (store-after-RemoveGroup, Pop on empty)
	for _, in := range c14DirectEdge() {
		cases = append(cases, c14Case{"edge-direct", in})
	}
	r7 := NewRng(seed() + 0xd1ec)
	for i, nd := 0, tierN(400, 6000); i < nd; i++ {
		cases = append(cases, c14Case{"gen-direct", c14GenDirect(r7)})
	}
	// VOLUME: crowds of callers, long job lists with slow readers, standing backlogs, bursts, rates (c14_volume_test.go)
	for _, in := range c14VolumeEdge() {
		cases = append(cases, c14Case{"edge-volume", in})
	}
	volScale := 1
	if thorough() {
		volScale = 3
	}
	r8 := NewRng(seed() + 0xb167)
	for i, nv := 0, tierN(28, 840); i < nv; i++ {
		cases = append(cases, c14Case{"gen-volume", c14GenVolume(r8, i, volScale)})
	}
	r10 := NewRng(seed() + 0xb169)
	for i, nv := 0, tierN(8, 200); i < nv; i++ {
		cases = append(cases, c14Case{"gen-volume-direct", c14GenDirectVolume(r10, i, volScale)})
	}
	if c14TraceBegin != nil {
		r9 := NewRng(seed() + 0xb168)
		for i, nv := 0, tierN(6, 120); i < nv; i++ {
			cases = append(cases, c14Case{"gen-volume-trace", c14GenVolumeTrace(r9, i, volScale)})
		}
	}
	if c14TraceBegin != nil {
		// trace validation subset: smaller runs (a trace has ~30 events per job), own random stream so
		// that the cases above are the same with and without the hooks
		r2 := NewRng(seed() + 0x7ace)
		nt := tierN(500, 6000)
		for i := 0; i < nt; i++ {
			if i%6 == 5 {
				// a timed history (quiet periods while long jobs hold workers), traced
				in := c14GenTimed(r2)
				in.Trace = true
				if in.hasDeadline() {
					// the expiry of a deadline is not an action of the harness: no event marks it in the log
					in.DeadlineMs = nil
				}
				cases = append(cases, c14Case{"gen-trace-timed", in})
				continue
			}
			if i%6 == 4 {
				// Stop from inside a job function / the result callback, traced
				in := c14GenJobStop(r2)
				in.Trace = true
				cases = append(cases, c14Case{"gen-trace-jobstop", in})
				continue
			}
			cases = append(cases, c14Case{"gen-trace", c14GenTrace(r2, i)})
		}
	}
	if only := os.Getenv("VERIF_C14_ONLY"); only != "" {
		// debugging: keep the cases whose source label contains the given text
		var kept []c14Case
		for _, c := range cases {
			if strings.Contains(c.src, only) {
				kept = append(kept, c)
			}
		}
		cases = kept
	}
	for _, c := range cases {
		in := c.in
		tot := 0
		for _, j := range in.Jobs {
			tot += j
		}
		if in.Trace {
			dist["trace=yes"]++
		}
		if in.timed() {
			dist["timed=yes"]++
		}
		if in.hasDeadline() {
			dist["deadline=yes"]++
		}
		if in.slowReader() {
			dist["slow-reader=yes"]++
		}
		if len(in.Jobs) > 64 {
			dist["volume:callers>64"]++
		}
		if in.Via == "delegate-v3" && in.Ticks > 20 {
			dist["volume:ticks>20"]++
		}
		mx := 0
		for _, j := range in.Jobs {
			if j > mx {
				mx = j
			}
		}
		if mx > 256 {
			dist["volume:jobs-of-one-caller>256"]++
		}
		if mx > 1000 {
			dist["volume:jobs-of-one-caller>1000"]++
		}
		if tot > 1024 {
			dist["volume:jobs-in-all>1024"]++
		}
		if in.hasStopJobs() {
			dist["stop-from-inside="+map[bool]string{true: "res", false: "job"}[in.StopWhere == "res"]]++
		}
		if len(in.Mercury) > 1 {
			dist["v2-request-flags"]++
		}
		if in.Via == "direct" {
			dist["via=direct"]++
			dist[fmt.Sprintf("direct:calls=%d", bucket(len(in.Ops)))]++
			continue
		}
		if in.Via != "" {
			dist["via="+in.Via]++
			if in.Queue > in.Workers {
				dist["runner:queue>workers"]++
			} else {
				dist["runner:queue<workers"]++
			}
		}
		dist["mode="+in.Mode]++
		dist["kind="+in.JobKind]++
		if len(in.PanicAt) > 0 {
			dist["panics=yes"]++
			if in.JobKind == "hold" || in.JobKind == "mixed" {
				dist["panics+holding-jobs"]++
			}
		}
		if len(in.Jobs) <= 4 {
			dist[fmt.Sprintf("callers=%d", len(in.Jobs))]++
		} else {
			dist[fmt.Sprintf("callers>=%d", bucket(len(in.Jobs)))]++
		}
		dist[fmt.Sprintf("workers=%d", bucket(in.Workers))]++
		dist[fmt.Sprintf("jobs=%d", bucket(tot))]++
		if in.Mode == "stop" || in.Mode == "cancel" || in.Mode == "both" {
			if in.K <= 300 {
				dist[fmt.Sprintf("k=%03d..%03d", in.K/50*50, in.K/50*50+49)]++
			} else {
				dist["k>300"]++
			}
		}
	}
	return
}

// ---------------------------------------------------------------- child protocol

type c14Line struct {
	Idx  int     `json:"idx"`
	Impl c14Impl `json:"impl"`
}

// c14Child runs cases [lo,hi) and appends verdict/final lines to the file.
func c14Child(t *testing.T, cases []c14Case, lo, hi int, path string) {
	f, err := os.OpenFile(path, os.O_CREATE|os.O_WRONLY|os.O_APPEND, 0o644)
	if err != nil {
		t.Fatal(err)
	}
	defer f.Close()
	write := func(idx int, impl c14Impl) {
		b, _ := json.Marshal(c14Line{idx, impl})
		f.Write(append(b, '\n'))
		f.Sync()
	}
	for i := lo; i < hi && i < len(cases); i++ {
		// announce the case: if the process dies, the parent knows where
		write(i, c14Impl{Phase: "start"})
		if envInt("VERIF_C14_SELFTEST_DIE_AT", -1) == i {
			// self-test of the crash path: die the way a fatal runtime error would, after a verdict line
			write(i, c14Impl{Phase: "verdict", Stuck: true, Callers: make([]c14Caller, len(cases[i].in.Jobs))})
			os.Exit(3)
		}
		impl := c14Run(t, cases[i].in, func(v c14Impl) { write(i, v) })
		write(i, impl)
	}
}

func TestC14(t *testing.T) {
	cases, dist := c14Cases(t)
	if spec := os.Getenv("VERIF_C14_CHILD"); spec != "" {
		var lo, hi int
		fmt.Sscanf(spec, "%d:%d", &lo, &hi)
		c14Child(t, cases, lo, hi, os.Getenv("VERIF_C14_CHILD_OUT"))
		return
	}
	em := NewEmitter(t, "C14")
	defer em.Close()
	for k, v := range dist {
		em.HitN(k, v)
	}
	results := make([]*c14Impl, len(cases))
	if os.Getenv("VERIF_C14_INPROC") == "1" {
		for i, c := range cases {
			impl := c14Run(t, c.in, func(v c14Impl) { vv := v; results[i] = &vv })
			results[i] = &impl
		}
	} else {
		c14Parent(t, cases, results, em)
	}
	stuck := 0
	for i, c := range cases {
		impl := results[i]
		if impl == nil {
			impl = &c14Impl{Crashed: true, Phase: "missing"}
		}
		if impl.Stuck {
			stuck++
		}
		em.Emit(c.src, c.in, impl)
	}
	em.HitN("stuck-verdicts", stuck)
	t.Logf("C14: %d cases, %d stuck verdicts", len(cases), stuck)
}

// c14Parent runs the cases in child processes, chunk by chunk, and survives their death.
func c14Parent(t *testing.T, cases []c14Case, results []*c14Impl, em *Emitter) {
	chunk := envInt("VERIF_C14_CHUNK", 250)
	tmp, err := os.CreateTemp("", "c14-child-*.jsonl")
	if err != nil {
		t.Fatal(err)
	}
	path := tmp.Name()
	tmp.Close()
	defer os.Remove(path)
	restarts := 0
	for lo := 0; lo < len(cases); {
		hi := lo + chunk
		if hi > len(cases) {
			hi = len(cases)
		}
		os.Truncate(path, 0)
		cmd := exec.Command(os.Args[0], "-test.run", "^TestC14$", "-test.timeout", "30m")
		coverChild(cmd)
		cmd.Env = append(os.Environ(), fmt.Sprintf("VERIF_C14_CHILD=%d:%d", lo, hi), "VERIF_C14_CHILD_OUT="+path)
		done := make(chan error, 1)
		var out strings.Builder
		cmd.Stdout, cmd.Stderr = &out, &out
		if err := cmd.Start(); err != nil {
			t.Fatalf("child: %v", err)
		}
		go func() { done <- cmd.Wait() }()
		var werr error
		select {
		case werr = <-done:
		case <-time.After(time.Duration(envInt("VERIF_C14_CHILD_TIMEOUT_S", 600)) * time.Second):
			cmd.Process.Kill()
			werr = fmt.Errorf("child timed out")
			<-done
		}
		last := lo - 1
		lastPhase := ""
		if f, err := os.Open(path); err == nil {
			sc := bufio.NewScanner(f)
			sc.Buffer(make([]byte, 1<<20), 1<<28)
			for sc.Scan() {
				var l c14Line
				if json.Unmarshal(sc.Bytes(), &l) != nil || l.Idx < lo || l.Idx >= hi {
					continue
				}
				last, lastPhase = l.Idx, l.Impl.Phase
				if l.Impl.Phase == "start" {
					continue
				}
				impl := l.Impl
				results[l.Idx] = &impl // "final" supersedes "verdict"
			}
			f.Close()
		}
		if werr == nil && last == hi-1 && lastPhase == "final" {
			lo = hi
			continue
		}
		// the child died (or was killed) inside case `last`
		restarts++
		em.Hit("child-restarts")
		if last < lo {
			t.Fatalf("child produced nothing for chunk %d:%d: %v\n%s", lo, hi, werr, c14Tail(out.String(), 2000))
		}
		if lastPhase != "final" {
			if results[last] == nil {
				results[last] = &c14Impl{Phase: "crashed"}
			}
			results[last].Crashed = true
			results[last].Panic = c14Tail(out.String(), 600)
		}
		lo = last + 1
		if restarts > 200 {
			t.Fatalf("too many child restarts")
		}
	}
}

func c14Tail(s string, n int) string {
	if len(s) > n {
		return s[len(s)-n:]
	}
	return s
}
