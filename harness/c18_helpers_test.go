package harness

import (
	"bytes"
	"context"
	"encoding/json"
	"errors"
	"fmt"
	ocr2keepersv3 "github.com/smartcontractkit/chainlink-automation/pkg/v3"
	"github.com/smartcontractkit/chainlink-automation/pkg/v3/types"
	"log"
	"os"
	"runtime"
	"sort"
	"strings"
	"sync"
	"sync/atomic"
	"testing"
	"time"

	"github.com/smartcontractkit/libocr/offchainreporting2plus/ocr3types"

	"github.com/smartcontractkit/chainlink-automation/pkg/v3/plugin"
	"github.com/smartcontractkit/chainlink-automation/pkg/v3/runner"
	"github.com/smartcontractkit/chainlink-automation/pkg/v3/service"
	"github.com/smartcontractkit/chainlink-common/pkg/services"
	ocr2keepers "github.com/smartcontractkit/chainlink-common/pkg/types/automation"
)

// C18 helpers: provider fakes with call counters, virtual-time stamps and
// panic injection at every external call a background flow makes, a node
// constructor over the public plugin factory (same path as NewNode in
// common_test.go, which cannot inject panics into the event provider / state
// updater), a goroutine-profile classifier and the close-error enum.

// panic sites (each is one external call made by one background flow)
const (
	c18SiteLog      = "logProvider"      // log trigger flow      : GetLatestPayloads   (Process goroutine)
	c18SiteRecov    = "recoveryProvider" // recovery proposal flow: GetRecoveryProposals (Process goroutine)
	c18SiteGetter   = "upkeepGetter"     // conditional sampler   : GetActiveUpkeeps     (Process goroutine)
	c18SiteEvents   = "eventsProvider"   // coordinator           : GetLatestEvents      (the service's own goroutine, inside safeCheckEvents)
	c18SitePipeline = "pipeline"         // runner                : CheckUpkeeps         (worker-group goroutine, inside runWorkItem)
	c18SitePost     = "stateUpdater"     // ineligible post-proc. : SetUpkeepState       (Process goroutine)
	// a panic that ESCAPES a service's blocking Start and so drives the recoverer through its cool-down and restart:
	// the result store's gc loop logs through the logger the operator hands to the factory; the harness's log
	// writer panics on that line (result store = the restartable service kind: no StateMachine, latched close signal)
	c18SiteGC = "resultStoreGC" // result store          : logger write in gc() (the service's own goroutine)
	// the upkeep type getter the operator hands to the factory is user code too; it is called on background goroutines from
	// three places (a panic there is raised INSIDE the stores' / coordinator's own critical sections)
	c18SiteBuilder    = "payloadBuilder"         // final conditional / final recovery flow: BuildPayloads (Process goroutine)
	c18SiteTGDequeue  = "typeGetter@dequeue"     // proposalQueue.Dequeue   (final conditional / final recovery flow, per queued proposal)
	c18SiteTGMetadata = "typeGetter@metadata"    // metadataStore.AddProposals / RemoveProposals (proposal flows' post-processing)
	c18SiteTGCoord    = "typeGetter@coordinator" // coordinator.ShouldProcess / FilterProposals  (every flow's pre-processing)
	// v2 (OCR2) plugin: the report coordinator's log poll and the polling observer's registry call
	c18SiteV2Perform  = "v2PerformLogs"
	c18SiteV2Stale    = "v2StaleLogs"
	c18SiteV2Source   = "v2ActiveUpkeeps"
	c18SiteV2CoordEnc = "v2CoordEncoder" // report coordinator: encoder.SplitUpkeepKey while processing a perform log (run loop)
	c18SiteV2ObsEnc   = "v2ObsEncoder"   // polling observer : encoder.MakeUpkeepKey for the sampled ids (head task loop)
	c18SiteV2Check    = "v2CheckUpkeep"  // polling observer : runner.CheckUpkeep (head task loop)
)

var c18Sites = []string{c18SiteLog, c18SiteRecov, c18SiteGetter, c18SiteEvents, c18SitePipeline, c18SitePost, c18SiteGC, c18SiteBuilder, c18SiteTGDequeue, c18SiteTGMetadata, c18SiteTGCoord}
var c18SitesV2 = []string{c18SiteV2Perform, c18SiteV2Stale, c18SiteV2CoordEnc, c18SiteV2Source, c18SiteV2ObsEnc, c18SiteV2Check}

const c18GCLine = "Garbage collecting result store"

// c18Probe is the per-site bookkeeping shared by all fakes of one node.
type c18Probe struct {
	t0       time.Time // virtual instant of node creation
	coolDown int64

	mu       sync.Mutex
	calls    map[string]int // all calls (including the ones that panic)
	site     string         // where to panic
	atCall   int            // first panicking call (1-based)
	count    int            // number of consecutive panicking calls
	nPanics  int
	firstAt  int64 // virtual ns since t0 of the first / last injected panic (-1 none)
	lastAt   int64
	okAfter  int64          // first good call at the panic site after the last panic (-1 none yet)
	inWindow map[string]int // good calls per site within (first panic, first panic + cool-down]
	inLast   map[string]int // good calls per site within (last panic, last panic + cool-down]
	pipeDone bool           // a pipeline call that began after the last panic has returned
	panicked chan struct{}  // closed at the first injected panic
	once     sync.Once

	armed    bool // calls made before arm() belong to the first instance of a reused factory: counted apart, no faults
	preCalls map[string]int
	done     map[string]int // calls that returned normally since arm(), per site (progress of the open instance)

	holdCtx    bool   // the held call returns only when its context ends (else: after holdNs, ignoring its context)
	heldBackAt int64  // when it returned
	holdSite   string // one call at this site is held in flight (it ignores its context, like a query that
	holdAtCall int    // already has its rows) for holdNs of virtual time, then returns normally
	holdNs     int64
	held       chan struct{} // closed when that call has been entered
	heldOnce   sync.Once
}

// arm starts the observation of the instance under test: virtual time zero, call numbering for the fault schedule
func (p *c18Probe) arm() {
	p.mu.Lock()
	p.t0 = time.Now()
	p.preCalls, p.calls, p.done, p.armed = p.calls, map[string]int{}, map[string]int{}, true
	p.mu.Unlock()
}

// returned records that a call at a site returned normally
func (p *c18Probe) returned(site string) {
	p.mu.Lock()
	if p.armed {
		p.done[site]++
	}
	p.mu.Unlock()
}

func (p *c18Probe) doneCount(site string) int {
	p.mu.Lock()
	defer p.mu.Unlock()
	return p.done[site]
}

func (p *c18Probe) setHold(site string, atCall int, ns int64, untilCtx bool) {
	p.holdSite, p.holdAtCall, p.holdNs, p.holdCtx, p.heldBackAt = site, atCall, ns, untilCtx, -1
}

func newC18Probe(site string, atCall, count int, coolDown int64) *c18Probe {
	return &c18Probe{t0: time.Now(), coolDown: coolDown, calls: map[string]int{}, inWindow: map[string]int{}, inLast: map[string]int{},
		site: site, atCall: atCall, count: count, firstAt: -1, lastAt: -1, okAfter: -1, panicked: make(chan struct{}), held: make(chan struct{})}
}

// hit records one call at a site and panics when the schedule says so.
func (p *c18Probe) hit(site string) { p.hitCtx(context.Background(), site) }

// hitCtx is hit for calls that are handed a context: a call held "until its context ends" waits for exactly that
func (p *c18Probe) hitCtx(ctx context.Context, site string) {
	p.mu.Lock()
	now := int64(time.Since(p.t0))
	p.calls[site]++
	if !p.armed {
		p.mu.Unlock()
		return
	}
	n := p.calls[site]
	boom := site == p.site && p.count > 0 && n >= p.atCall && n < p.atCall+p.count
	if boom {
		p.nPanics++
		if p.firstAt < 0 {
			p.firstAt = now
		}
		p.lastAt = now
		p.okAfter = -1
		p.inLast = map[string]int{}
		p.pipeDone = false
	} else {
		if site == p.site && p.lastAt >= 0 && p.okAfter < 0 {
			p.okAfter = now
		}
		if p.firstAt >= 0 && now > p.firstAt && now <= p.firstAt+p.coolDown {
			p.inWindow[site]++
		}
		if p.lastAt >= 0 && now > p.lastAt && now <= p.lastAt+p.coolDown {
			p.inLast[site]++
		}
	}
	hold := site == p.holdSite && p.holdNs > 0 && n == p.holdAtCall
	p.mu.Unlock()
	if boom {
		p.once.Do(func() { close(p.panicked) })
		panic("c18: injected panic at " + site)
	}
	if hold {
		p.heldOnce.Do(func() { close(p.held) })
		if p.holdCtx {
			// a slow call that HONOURS cancellation: it returns only when its context ends (holdNs is the safety net that lets
			// the case end if the context never does)
			select {
			case <-ctx.Done():
			case <-time.After(time.Duration(p.holdNs)):
			}
		} else {
			time.Sleep(time.Duration(p.holdNs))
		}
		p.mu.Lock()
		p.heldBackAt = int64(time.Since(p.t0))
		p.mu.Unlock()
	}
}

// heldReturnedAt: virtual ns since t0 at which the held call returned (-1: it has not)
func (p *c18Probe) heldReturnedAt() int64 {
	p.mu.Lock()
	defer p.mu.Unlock()
	return p.heldBackAt
}

func (p *c18Probe) snapshot() map[string]int {
	p.mu.Lock()
	defer p.mu.Unlock()
	out := map[string]int{}
	for s, n := range p.calls {
		out[s] = n
	}
	return out
}

// panic bookkeeping: (number, first, last, first good call after the last) in virtual ns since t0, -1 = none
func (p *c18Probe) panicInfo() (n int, first, last, okAfter int64) {
	p.mu.Lock()
	defer p.mu.Unlock()
	return p.nPanics, p.firstAt, p.lastAt, p.okAfter
}

// good calls at a site during the cool-down period that followed the first panic, and the one that followed the last
func (p *c18Probe) okInWindow(site string) (afterFirst, afterLast int) {
	p.mu.Lock()
	defer p.mu.Unlock()
	return p.inWindow[site], p.inLast[site]
}

// pipelineReturned is called when a pipeline call that began at `began` (virtual ns since t0) returns normally
func (p *c18Probe) pipelineReturned(began int64) {
	p.mu.Lock()
	if p.lastAt >= 0 && began > p.lastAt {
		p.pipeDone = true
	}
	p.mu.Unlock()
}

func (p *c18Probe) pipelineDoneAfterLastPanic() bool {
	p.mu.Lock()
	defer p.mu.Unlock()
	return p.pipeDone
}

type c18LogProvider struct {
	p      *c18Probe
	work   int  // payloads handed out per call
	repeat bool // the same upkeeps / work ids on every call (block number fixed, block hash new each time: the runner's cache
	// shortcut does not apply, the pipeline is asked again about a work id it has answered before)
	ids []ocr2keepers.UpkeepIdentifier
	seq atomic.Uint64
	rng *Rng
	mu  sync.Mutex
}

func (f *c18LogProvider) GetLatestPayloads(ctx context.Context) ([]ocr2keepers.UpkeepPayload, error) {
	f.p.hitCtx(ctx, c18SiteLog)
	if f.work == 0 {
		return nil, nil
	}
	f.mu.Lock()
	defer f.mu.Unlock()
	out := make([]ocr2keepers.UpkeepPayload, 0, f.work)
	for i := 0; i < f.work; i++ {
		if f.repeat {
			for len(f.ids) <= i {
				f.ids = append(f.ids, genUpkeepID(f.rng, true))
			}
			// same log (tx hash, index) => same work id; the check block hash differs from call to call
			trig := ocr2keepers.Trigger{BlockNumber: 100, BlockHash: genHash(f.rng), LogTriggerExtension: &ocr2keepers.LogTriggerExtension{
				TxHash: [32]byte{byte(i + 1)}, Index: uint32(i), BlockHash: [32]byte{8}, BlockNumber: 99}}
			out = append(out, ocr2keepers.UpkeepPayload{UpkeepID: f.ids[i], Trigger: trig, WorkID: wg(f.ids[i], trig)})
			continue
		}
		uid := genUpkeepID(f.rng, true)
		res := genResult(f.rng, uid, 100+f.seq.Add(1))
		out = append(out, ocr2keepers.UpkeepPayload{UpkeepID: uid, Trigger: res.Trigger, WorkID: res.WorkID})
	}
	return out, nil
}
func (f *c18LogProvider) SetConfig(ocr2keepers.LogEventProviderConfig) {}
func (f *c18LogProvider) Start(context.Context) error                  { return nil }
func (f *c18LogProvider) Close() error                                 { return nil }

type c18Events struct {
	p       *c18Probe
	perform []ocr2keepers.TransmitEvent // confirmed perform events reported on every poll (for the repeating work ids)
}

func (f *c18Events) GetLatestEvents(ctx context.Context) ([]ocr2keepers.TransmitEvent, error) {
	f.p.hitCtx(ctx, c18SiteEvents)
	return f.perform, nil
}

type c18Recov struct {
	p    *c18Probe
	work bool // hand out one recoverable log payload per call (drives the recovery proposal flow into the metadata store)
	rng  *Rng
	mu   sync.Mutex
	seq  uint64
}

func (f *c18Recov) GetRecoveryProposals(ctx context.Context) ([]ocr2keepers.UpkeepPayload, error) {
	f.p.hitCtx(ctx, c18SiteRecov)
	if !f.work {
		return nil, nil
	}
	f.mu.Lock()
	defer f.mu.Unlock()
	f.seq++
	uid := genUpkeepID(f.rng, true)
	res := genResult(f.rng, uid, 200+f.seq)
	return []ocr2keepers.UpkeepPayload{{UpkeepID: uid, Trigger: res.Trigger, WorkID: res.WorkID}}, nil
}

type c18Getter struct{ p *c18Probe }

func (f *c18Getter) GetActiveUpkeeps(ctx context.Context) ([]ocr2keepers.UpkeepPayload, error) {
	f.p.hitCtx(ctx, c18SiteGetter)
	return nil, nil
}

// c18Pipeline answers CheckUpkeeps after a virtual latency; results are
// well-formed, eligible or (for the post-processing site) ineligible.
type c18Pipeline struct {
	shape      string
	calls      atomic.Int64
	p          *c18Probe
	latency    time.Duration
	honorCtx   bool
	ineligible bool
}

func (f *c18Pipeline) CheckUpkeeps(ctx context.Context, ps ...ocr2keepers.UpkeepPayload) ([]ocr2keepers.CheckResult, error) {
	began := int64(time.Since(f.p.t0))
	f.p.hitCtx(ctx, c18SitePipeline)
	defer f.p.pipelineReturned(began)
	defer f.p.returned(c18SitePipeline)
	if f.latency > 0 {
		if f.honorCtx {
			select {
			case <-time.After(f.latency):
			case <-ctx.Done():
				return nil, ctx.Err()
			}
		} else {
			time.Sleep(f.latency)
		}
	}
	n := f.calls.Add(1)
	out := make([]ocr2keepers.CheckResult, len(ps))
	for i, p := range ps {
		out[i] = ocr2keepers.CheckResult{Eligible: !f.ineligible, UpkeepID: p.UpkeepID, Trigger: p.Trigger, WorkID: p.WorkID,
			GasAllocated: 100000, PerformData: []byte{1}, FastGasWei: c18BigOne, LinkNative: c18BigOne}
		if f.ineligible {
			out[i].IneligibilityReason = 1
		}
		// RESULT SHAPES (the pipeline is user code: what it returns is a fault dimension like its panics)
		switch f.shape {
		case "ext-flip": // the trigger's log extension present / absent in turn (same work id when the provider repeats)
			if n%2 == 1 {
				out[i].Trigger.LogTriggerExtension = nil
			}
		case "ext-drop":
			out[i].Trigger.LogTriggerExtension = nil
		case "block-down": // answers on ever lower check blocks
			if b := uint64(p.Trigger.BlockNumber); b > uint64(n) {
				out[i].Trigger.BlockNumber = ocr2keepers.BlockNumber(b - uint64(n))
			}
		case "block-huge":
			out[i].Trigger.BlockNumber = ocr2keepers.BlockNumber(^uint64(0) - uint64(n%3))
		case "foreign": // every result carries the first payload's work id / upkeep
			out[i].WorkID, out[i].UpkeepID = ps[0].WorkID, ps[0].UpkeepID
		case "odd-flags": // inconsistent but legal flag combinations
			out[i].Retryable = n%2 == 0
			out[i].IneligibilityReason = uint8(n % 7)
			out[i].PipelineExecutionState = uint8(n % 3)
			out[i].RetryInterval = time.Duration(n%4) * time.Second
		case "nil-fields":
			out[i].FastGasWei, out[i].LinkNative, out[i].PerformData = nil, nil, nil
		case "empty-workid":
			out[i].WorkID = ""
		}
	}
	switch f.shape {
	case "short": // fewer results than payloads
		if len(out) > 0 {
			out = out[:len(out)-1]
		}
	case "long": // one result too many
		if len(out) > 0 {
			out = append(out, out[0])
		}
	case "nil-nil":
		return nil, nil
	case "results-and-error":
		return out, errors.New("c18: pipeline error with results")
	}
	return out, nil
}

// c18Shapes: the pipeline result shapes of the "shape" dimension ("" = the well-behaved echo)
var c18Shapes = []string{"ext-flip", "ext-drop", "block-down", "block-huge", "foreign", "odd-flags", "nil-fields", "empty-workid", "short", "long", "nil-nil", "results-and-error"}

var c18BigOne = strBig(func() *string { s := "1"; return &s }())

type c18StateUpdater struct{ p *c18Probe }

func (f *c18StateUpdater) SetUpkeepState(ctx context.Context, _ ocr2keepers.CheckResult, _ ocr2keepers.UpkeepState) error {
	f.p.hitCtx(ctx, c18SitePost)
	return nil
}

// c18LogWriter is the io.Writer behind the *log.Logger handed to the factory (every service derives its logger
// from it): it discards everything and reports the result store's gc line as a call at site resultStoreGC.
type c18LogWriter struct{ p *c18Probe }

func (w *c18LogWriter) Write(b []byte) (int, error) {
	if bytes.Contains(b, []byte(c18GCLine)) {
		w.p.hit(c18SiteGC)
	}
	return len(b), nil
}

// c18Sys is what a case needs of the system under test (v3 or v2 plugin)
type c18Sys struct {
	probe   *c18Probe
	close   func() error
	subs    func() int // block subscriptions still registered
	stopEnv func()     // stops the harness's own environment goroutines (head feeder), if any
	sites   []string   // provider sites whose calls are counted
	// for "other flows keep ticking": one representative site per flow that ticks on its own, and the flow each
	// panic site belongs to (a flow is not its own "other")
	flowRep      map[string]string
	flowOf       map[string]string
	round        func(seq uint64) error // one foreground OCR round on the instance under test (nil: the family has none here)
	progressSite string                 // the check-pipeline call of this family: an open instance with work must get through to it
	firstClose   map[string]int         // factory reuse: what closing the first instance returned (enum counts; "panic" if it panicked)
}

// c18SafeClose calls a Close and turns a panic out of it into a value
func c18SafeClose(f func() error) (err error, panicked string) {
	defer func() {
		if r := recover(); r != nil {
			panicked = fmt.Sprint(r)
		}
	}()
	return f(), ""
}

// c18Build applies the factory-reuse dimension (libocr keeps ONE factory and asks it for a new instance on every
// config change): mk builds one instance on the one factory and returns its Close.
//
//	reuse 0: the instance under test is the factory's first
//	reuse 1: a first instance is built, runs reuseRun, is closed, reuseGap passes, then the instance under test is built
//	reuse 2: a first instance is built and runs reuseRun; the instance under test is built while it is still open;
//	         reuseGap later the first one is closed
//
// The probe is armed (time zero, fault schedule, call counters) when the instance under test is created; everything the
// shared fakes see afterwards — from either instance — is attributed to the case.
func c18Build(in c18Input, pr *c18Probe, mk func(cfg string) func() error) (close func() error, first map[string]int) {
	cfg2 := `{}`
	if in.Offchain != "" {
		cfg2 = in.Offchain // the off-chain configuration of the instance under test (value-domain dimension)
	} else if in.ReuseCfg == "diff" {
		cfg2 = `{"performLockoutWindow":100000,"minConfirmations":1,"maxUpkeepBatchSize":3,"gasLimitPerReport":4000000}`
	}
	closeFirst := func(c func() error) map[string]int {
		err, pan := c18SafeClose(c)
		out := c18CloseErrs(err)
		if pan != "" {
			out["panic"]++
		}
		return out
	}
	switch in.Reuse {
	case 1:
		c1 := mk(`{}`)
		time.Sleep(time.Duration(in.ReuseRunNs))
		first = closeFirst(c1)
		time.Sleep(time.Duration(in.ReuseGapNs))
		pr.arm()
		return mk(cfg2), first
	case 2:
		c1 := mk(`{}`)
		time.Sleep(time.Duration(in.ReuseRunNs))
		pr.arm()
		c2 := mk(cfg2)
		time.Sleep(time.Duration(in.ReuseGapNs))
		first = closeFirst(c1)
		return c2, first
	default:
		pr.arm()
		return mk(cfg2), map[string]int{}
	}
}

// othersOf returns the representative sites of the flows other than the one `site` belongs to
func (s *c18Sys) othersOf(site string) []string {
	var out []string
	for flow, rep := range s.flowRep {
		if flow != s.flowOf[site] {
			out = append(out, rep)
		}
	}
	sort.Strings(out)
	return out
}

func newC18V3Sys(t testing.TB, in c18Input) *c18Sys {
	n := newC18Node(t, in)
	return &c18Sys{probe: n.Probe, close: n.Close, round: n.Round, firstClose: n.First, progressSite: c18SitePipeline, subs: n.Blocks.NumSubs, stopEnv: func() {}, sites: c18Sites,
		flowRep: map[string]string{"log": c18SiteLog, "recovery": c18SiteRecov, "sampling": c18SiteGetter, "coordinator": c18SiteEvents},
		flowOf: map[string]string{c18SiteLog: "log", c18SiteRecov: "recovery", c18SiteGetter: "sampling", c18SiteEvents: "coordinator",
			c18SitePipeline: "pipeline", c18SitePost: "post", c18SiteGC: "resultStore",
			c18SiteBuilder: "final", c18SiteTGDequeue: "final", c18SiteTGMetadata: "recovery", c18SiteTGCoord: "pre-processing"}}
}

// c18Builder builds payloads from coordinated proposals on the two final flows' tick goroutines (user code as well)
type c18Builder struct{ p *c18Probe }

func (b c18Builder) BuildPayloads(ctx context.Context, ps ...ocr2keepers.CoordinatedBlockProposal) ([]ocr2keepers.UpkeepPayload, error) {
	b.p.hitCtx(ctx, c18SiteBuilder)
	if err := ctx.Err(); err != nil {
		return nil, err
	}
	return fakeBuilder{}.BuildPayloads(ctx, ps...)
}

// c18TypeGetter wraps the repository's upkeep type getter: a call is attributed to the place it comes from (innermost
// frame of the stores / coordinator) and is a fault site there; calls from the plugin's foreground methods are not.
func c18TypeGetter(p *c18Probe) func(ocr2keepers.UpkeepIdentifier) types.UpkeepType {
	return func(id ocr2keepers.UpkeepIdentifier) types.UpkeepType {
		var pcs [12]uintptr
		n := runtime.Callers(2, pcs[:])
		frames := runtime.CallersFrames(pcs[:n])
		for {
			fr, more := frames.Next()
			switch {
			case strings.Contains(fr.Function, "proposalQueue).Dequeue"):
				p.hit(c18SiteTGDequeue)
				return utg(id)
			case strings.Contains(fr.Function, "stores.(*metadataStore)"):
				p.hit(c18SiteTGMetadata)
				return utg(id)
			case strings.Contains(fr.Function, "coordinator.(*coordinator)"):
				p.hit(c18SiteTGCoord)
				return utg(id)
			}
			if !more {
				break
			}
		}
		return utg(id)
	}
}

type c18Node struct {
	Round  func(seq uint64) error // one OCR3 Observation call of the instance under test, with a previous outcome that surfaces fresh proposals
	Close  func() error
	First  map[string]int
	Probe  *c18Probe
	Blocks *fakeBlocks
	Env    *c18Blocks // the block subscriber handed to the factory (Blocks with switchable Subscribe / Unsubscribe failures)
}

// newC18Node builds a plugin through plugin.NewReportingPluginFactory, exactly
// like NewNode, with the C18 fakes plugged in.
func newC18Node(t testing.TB, in c18Input) *c18Node {
	pr := newC18Probe(in.PanicSite, in.PanicAtCall, in.PanicCount, in.CoolDownNs)
	pr.setHold(in.HoldSite, in.HoldAtCall, in.HoldNs, in.HoldCtx)
	n := &c18Node{Probe: pr, Blocks: &fakeBlocks{}}
	rc := runner.RunnerConfig{Workers: 4, WorkerQueueLength: 100, CacheExpire: 20 * time.Minute, CacheClean: 30 * time.Second}
	if r := in.Runner; r != nil {
		rc = runner.RunnerConfig{Workers: r.Workers, WorkerQueueLength: r.QueueLength, CacheExpire: time.Duration(r.CacheExpireNs), CacheClean: time.Duration(r.CacheCleanNs)}
	}
	tg := c18TypeGetter(pr)
	// the repeating work: fixed upkeeps and logs (=> fixed work ids), known to the log provider, to the transmit event
	// provider (which reports them as performed once the rounds have accepted a report for them) and to the rounds
	lp := &c18LogProvider{p: pr, work: in.Work, repeat: in.RepeatWork, rng: NewRng(77)}
	ev := &c18Events{p: pr}
	var repeated []ocr2keepers.CheckResult
	if in.RepeatWork {
		for i := 0; i < in.Work; i++ {
			uid := genUpkeepID(lp.rng, true)
			lp.ids = append(lp.ids, uid)
			trig := ocr2keepers.Trigger{BlockNumber: 100, BlockHash: [32]byte{9}, LogTriggerExtension: &ocr2keepers.LogTriggerExtension{
				TxHash: [32]byte{byte(i + 1)}, Index: uint32(i), BlockHash: [32]byte{8}, BlockNumber: 99}}
			wid := wg(uid, trig)
			repeated = append(repeated, ocr2keepers.CheckResult{Eligible: true, UpkeepID: uid, Trigger: trig, WorkID: wid, GasAllocated: 1, PerformData: []byte{1}, FastGasWei: c18BigOne, LinkNative: c18BigOne})
			if in.Rounds {
				ev.perform = append(ev.perform, ocr2keepers.TransmitEvent{Type: ocr2keepers.PerformEvent, TransmitBlock: 101, Confirmations: 1 << 40,
					TransactionHash: [32]byte{7, byte(i)}, UpkeepID: uid, WorkID: wid, CheckBlock: 100})
			}
		}
	}
	blocks := &c18Blocks{fakeBlocks: n.Blocks}
	blocks.failUnsub.Store(in.CloseFault == "unsubscribe")
	n.Env = blocks
	fac := plugin.NewReportingPluginFactory(
		lp, ev, blocks,
		&c18Recov{p: pr, work: in.Rounds, rng: NewRng(78)}, c18Builder{p: pr}, &c18Getter{p: pr},
		&c18Pipeline{p: pr, shape: in.Shape, latency: time.Duration(in.LatencyNs), honorCtx: in.HonorCtx, ineligible: in.Ineligible},
		rc, &recEncoder{}, tg, wg, &c18StateUpdater{p: pr}, log.New(&c18LogWriter{p: pr}, "", 0))
	var cur ocr3types.ReportingPlugin[plugin.AutomationReportInfo]
	n.Close, n.First = c18Build(in, pr, func(cfg string) func() error {
		// the context of the creation call is not the life time of the instance: libocr's ends once the call has returned
		cctx, ccancel := context.WithCancel(context.Background())
		p, _, err := fac.NewReportingPlugin(cctx, ocr3types.ReportingPluginConfig{N: 4, F: 1, OffchainConfig: []byte(cfg)})
		ccancel()
		if err != nil {
			t.Fatalf("NewReportingPlugin: %v", err)
		}
		cur = p
		return p.Close
	})
	rng := NewRng(79)
	n.Round = func(seq uint64) error {
		// what libocr does once per round on the open instance: Observation with the previous outcome; that outcome surfaces one
		// fresh conditional and one fresh log proposal, which the hook enqueues for the two final flows
		var props []ocr2keepers.CoordinatedBlockProposal
		for _, logType := range []bool{false, true} {
			uid := genUpkeepID(rng, logType)
			res := genResult(rng, uid, 300+seq)
			props = append(props, ocr2keepers.CoordinatedBlockProposal{UpkeepID: uid, Trigger: res.Trigger, WorkID: res.WorkID})
		}
		raw, err := ocr2keepersv3.AutomationOutcome{AgreedPerformables: []ocr2keepers.CheckResult{}, SurfacedProposals: [][]ocr2keepers.CoordinatedBlockProposal{props}}.Encode()
		if err != nil {
			return err
		}
		if _, err = cur.Observation(context.Background(), ocr3types.OutcomeContext{SeqNr: seq, PreviousOutcome: raw}, nil); err != nil {
			return err
		}
		if len(repeated) > 0 {
			// … and a report for the repeating work is accepted: the coordinator tracks it, the event provider reports the perform
			rep, _ := json.Marshal(repeated)
			_, err = cur.ShouldAcceptAttestedReport(context.Background(), seq, ocr3types.ReportWithInfo[plugin.AutomationReportInfo]{Report: rep})
		}
		return err
	}
	return n
}

// ---------------------------------------------------------------- close errors → enum

// c18CloseErrs maps the joined error of Plugin.Close to counts per kind.
//
//	recoverer-not-running : service.ErrServiceNotRunning (the recoverer's running flag was false)
//	svc-not-started       : the wrapped service refused to stop because it has not (completely) started yet
//	                        (services.ErrCannotStopUnstarted, StateMachine state Starting, metadata store
//	                        "service not running", runner "not running")
//	svc-already-stopped   : services.ErrAlreadyStopped
//	other                 : anything else
func c18CloseErrs(err error) map[string]int {
	out := map[string]int{}
	var walk func(e error)
	walk = func(e error) {
		if e == nil {
			return
		}
		if j, ok := e.(interface{ Unwrap() []error }); ok {
			for _, x := range j.Unwrap() {
				walk(x)
			}
			return
		}
		switch {
		case errors.Is(e, service.ErrServiceNotRunning):
			out["recoverer-not-running"]++
		case errors.Is(e, services.ErrCannotStopUnstarted), strings.HasSuffix(e.Error(), "state=Starting"),
			e.Error() == "service not running", e.Error() == "not running":
			out["svc-not-started"]++
		case errors.Is(e, services.ErrAlreadyStopped):
			out["svc-already-stopped"]++
		default:
			out["other"]++
		}
	}
	walk(err)
	return out
}

// ---------------------------------------------------------------- goroutine profile

// c18Goroutines classifies every live goroutine that has a frame of the
// repository (chainlink-automation/pkg or /internal) by its innermost such frame.
//
//	serviceStart  recoverer.serviceStart (one per recoverer while it is "running")
//	service       the blocking Start of a wrapped service: timeTicker.Start, resultStore.Start,
//	              metadataStore.Start, coordinator.run, Runner.Start
//	aux           helpers owned by a service: Cache.Start (GC), WorkerGroup.run/runQueuing/runProcessing
//	inflight      anything else (a Process / worker goroutine in the middle of a call)
func c18Goroutines() (classes map[string]int, detail map[string]int) {
	buf := make([]byte, 1<<20)
	for {
		n := runtime.Stack(buf, true)
		if n < len(buf) {
			buf = buf[:n]
			break
		}
		buf = make([]byte, 2*len(buf))
	}
	classes, detail = map[string]int{}, map[string]int{}
	for _, g := range strings.Split(string(buf), "\n\n") {
		inner := ""
		for _, line := range strings.Split(g, "\n") {
			if strings.HasPrefix(line, "\t") || strings.HasPrefix(line, "goroutine ") || strings.HasPrefix(line, "created by") {
				continue
			}
			if strings.Contains(line, "chainlink-automation/pkg/") || strings.Contains(line, "chainlink-automation/internal/") {
				inner = line
				break
			}
		}
		if inner == "" {
			continue
		}
		if i := strings.LastIndex(inner, "("); i > 0 {
			inner = inner[:i]
		}
		inner = strings.TrimPrefix(inner, "github.com/smartcontractkit/chainlink-automation/")
		cls := "inflight"
		switch {
		case strings.Contains(inner, "recoverer).serviceStart"):
			cls = "serviceStart"
		case strings.Contains(inner, "timeTicker[") && strings.HasSuffix(inner, ".Start"),
			strings.HasSuffix(inner, "resultStore).Start"), strings.HasSuffix(inner, "metadataStore).Start"),
			strings.HasSuffix(inner, "coordinator).run"), strings.HasSuffix(inner, "Runner).Start"),
			strings.HasSuffix(inner, "reportCoordinator).run"), strings.Contains(inner, "polling.(*PollingObserver)"),
			strings.Contains(inner, "observer.(*SimpleService)"):
			cls = "service"
		case strings.Contains(inner, "RecoverableService).serviceStart"):
			cls = "serviceStart"
		case strings.Contains(inner, "util.(*Cache[") && strings.HasSuffix(inner, ".Start"),
			strings.Contains(inner, "util.(*WorkerGroup["), strings.Contains(inner, "IntervalCacheCleaner["):
			cls = "aux"
		}
		classes[cls]++
		detail[inner]++
	}
	return classes, detail
}

// c18CountStacks counts the goroutines of the repository whose stack mentions one of the given functions
func c18CountStacks(subs ...string) int {
	buf := make([]byte, 1<<22)
	buf = buf[:runtime.Stack(buf, true)]
	n := 0
	for _, g := range strings.Split(string(buf), "\n\n") {
		if !strings.Contains(g, "chainlink-automation/pkg/") {
			continue
		}
		for _, sub := range subs {
			if strings.Contains(g, sub) {
				n++
				break
			}
		}
	}
	return n
}

func c18SortedKeys(m map[string]int) []string {
	ks := make([]string, 0, len(m))
	for k := range m {
		ks = append(ks, k)
	}
	sort.Strings(ks)
	return ks
}

func c18Getenv(k, d string) string {
	if v := os.Getenv(k); v != "" {
		return v
	}
	return d
}
