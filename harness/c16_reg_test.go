package harness

import (
	"context"
	"errors"
	"fmt"
	"sort"
	"sync"
	"sync/atomic"
	"testing/synctest"

	v2 "github.com/smartcontractkit/chainlink-automation/pkg/v2"
	v2enc "github.com/smartcontractkit/chainlink-automation/pkg/v2/encoding"
)

// C16, registry level.  With c16Input.Reg the plugin's Report path and the polling observer do not talk to a
// harness runner but to the repository's v2 runner (runner.NewRunner: worker group, RPC batches of 10 keys, result
// cache), and the harness plays the REGISTRY behind it: every check call (one batch) is answered from the head's
// script - with one result per asked key, with fewer results than keys (paused / cancelled upkeeps have no
// result), with an empty list, with the nil slice, with an error, with an error next to results - in any mixture
// over the batches of one head and over consecutive heads ("everything eligible", then "everything vanished").

type c16Reg struct {
	Workers int `json:"workers"` // runner.NewRunner: workers of the worker group
	Queue   int `json:"queue"`   // runner.NewRunner: worker queue length
}

// c16Batch: how one registry call is answered.
//
//	key      one result per asked key according to the head's Status (p: no result)
//	short    as key, but only the first N results
//	empty    an empty list, no error
//	nil      the nil slice, no error
//	err      nil and an error
//	errRes   the results of "key" AND an error (the error wins)
//	explicit Results as given, whatever was asked
type c16Batch struct {
	Kind    string       `json:"kind"`
	N       int          `json:"n,omitempty"`
	Results []c16HeadRes `json:"results,omitempty"`
}

// c16Call: one registry call as it happened.
type c16Call struct {
	Head    int          `json:"head"` // index of the head that was being sampled; -1: the report-time check
	Keys    []string     `json:"keys"`
	Err     bool         `json:"err"`
	Results []c16HeadRes `json:"results"` // obs mode: what was returned (next to an error as well)
}

// c16PlainEnc: the encoder the runner is constructed with (results are the harness's c16Result).
type c16PlainEnc struct{ v2enc.BasicEncoder }

func (c16PlainEnc) Eligible(r v2.UpkeepResult) (bool, error) {
	x := r.(c16Result)
	if x.EligErr {
		return x.Eligible, errors.New("c16: eligibility failure")
	}
	return x.Eligible, nil
}

func (c16PlainEnc) Detail(r v2.UpkeepResult) (v2.UpkeepKey, uint32, error) {
	x := r.(c16Result)
	if x.DetailErr {
		return nil, 0, errors.New("c16: detail failure")
	}
	return v2.UpkeepKey(x.Key), x.Gas, nil
}

type c16Registry struct {
	mu     sync.Mutex
	hi     int
	head   c16Head
	park   chan struct{}
	parked *atomic.Bool
	n      int // calls of the current head so far
	report func([]string) ([]v2.UpkeepResult, error)
	calls  []c16Call
}

func (g *c16Registry) setHead(hi int, h c16Head, park chan struct{}, parked *atomic.Bool) {
	g.mu.Lock()
	g.hi, g.head, g.park, g.parked, g.n = hi, h, park, parked, 0
	g.mu.Unlock()
}

func (g *c16Registry) setReport(fn func([]string) ([]v2.UpkeepResult, error)) {
	g.mu.Lock()
	g.report = fn
	g.mu.Unlock()
}

func (g *c16Registry) taken() []c16Call {
	g.mu.Lock()
	defer g.mu.Unlock()
	c := g.calls
	g.calls = nil
	return c
}

func (g *c16Registry) CheckUpkeep(_ context.Context, _ bool, keys ...v2.UpkeepKey) ([]v2.UpkeepResult, error) {
	ks := make([]string, len(keys))
	for i, k := range keys {
		ks[i] = string(k)
	}
	g.mu.Lock()
	report, hi, h, park, parked, k := g.report, g.hi, g.head, g.park, g.parked, g.n
	g.n++
	g.mu.Unlock()
	if report != nil {
		out, err := report(ks)
		g.mu.Lock()
		g.calls = append(g.calls, c16Call{Head: -1, Keys: ks, Err: err != nil, Results: []c16HeadRes{}})
		g.mu.Unlock()
		return out, err
	}
	if park != nil {
		parked.Store(true)
		<-park // the RPC is still pending
	}
	byKey := func() []c16HeadRes {
		out := []c16HeadRes{}
		// in the order of the ids (the keys arrive shuffled with crypto/rand): what a one-batch head is answered
		// does not depend on the shuffle
		sorted := append([]string{}, ks...)
		sort.Slice(sorted, func(i, j int) bool {
			if len(sorted[i]) != len(sorted[j]) {
				return len(sorted[i]) < len(sorted[j])
			}
			return sorted[i] < sorted[j]
		})
		for _, key := range sorted {
			_, id, err := v2enc.BasicEncoder{}.SplitUpkeepKey(v2.UpkeepKey(key))
			if err != nil {
				continue
			}
			var idx int
			if _, err := fmt.Sscanf(string(id), "%d", &idx); err != nil || idx < 1 || idx > len(h.Status) {
				continue
			}
			switch h.Status[idx-1] {
			case 'e':
				out = append(out, c16HeadRes{Key: key, Eligible: true})
			case 'i':
				out = append(out, c16HeadRes{Key: key})
			case 'x':
				out = append(out, c16HeadRes{Key: key, Eligible: true, EligErr: true})
			case 'd':
				out = append(out, c16HeadRes{Key: key, Eligible: true, DetailErr: true})
			}
		}
		return out
	}
	b := c16Batch{Kind: "key"}
	if k < len(h.Batches) {
		b = h.Batches[k]
	}
	var (
		res  []c16HeadRes
		null bool
		err  error
	)
	switch b.Kind {
	case "key":
		res = byKey()
	case "short":
		res = byKey()
		if b.N < len(res) {
			res = res[:b.N]
		}
	case "empty":
		res = []c16HeadRes{}
	case "nil":
		null = true
	case "err":
		null, err = true, errors.New("c16: check failure")
	case "errRes":
		res, err = byKey(), errors.New("c16: check failure")
	case "explicit":
		res = append([]c16HeadRes{}, b.Results...)
	default:
		panic("c16: unknown batch kind " + b.Kind)
	}
	var out []v2.UpkeepResult
	if !null {
		out = make([]v2.UpkeepResult, 0, len(res))
		for i, r := range res {
			out = append(out, c16Result{Seq: i, Key: r.Key, Eligible: r.Eligible, EligErr: r.EligErr, DetailErr: r.DetailErr})
		}
	}
	if res == nil {
		res = []c16HeadRes{}
	}
	g.mu.Lock()
	g.calls = append(g.calls, c16Call{Head: hi, Keys: ks, Err: err != nil, Results: res})
	g.mu.Unlock()
	return out, err
}

func (n *c16Node) closeRunner() {
	if n.rn != nil {
		_ = n.rn.Close()
		synctest.Wait()
	}
}

// ---------------------------------------------------------------- generators

func c16GenReg(r *Rng) *c16Reg {
	return &c16Reg{Workers: []int{1, 2, 4, 8}[r.Intn(4)], Queue: []int{1, 10, 100}[r.Intn(3)]}
}

// c16FullSample: target probability / rounds pairs under which every active upkeep is sampled (ratio 0.98 with at
// most 24 upkeeps, or ratio 1.0), so that the set of keys the registry is asked about is known.
func c16FullSample(r *Rng, c *c16Cfg) {
	if r.Bool() {
		c.Prob, c.Rounds = "", []int{0, 1, -1}[r.Intn(3)]
	} else {
		c.Prob, c.Rounds = "1", r.Range(1, 3)
	}
}

// c16GenObsReg: consecutive heads over one registry of n upkeeps (1..3 batches per head) whose states change from
// head to head - incl. "everything eligible, then everything paused" - and whose calls are answered in mixtures of
// complete / short / empty / nil / failing batches; Observation() after each head, during sampling, while the RPC is
// pending; the same block delivered twice (results come from the runner's cache).
func c16GenObsReg(r *Rng, em *Emitter) c16Input {
	in := c16Input{Mode: "obs", Prior: c16GenPrior(r, em), Cfg: c16GenCfg(r), Epoch: uint32(r.Intn(1000)), Round: uint8(r.Intn(256)), Digest: r.U64()}
	c16FullSample(r, &in.Cfg)
	in.Reg = c16GenReg(r)
	n := []int{1, 2, 3, 3, 5, 6, 10, 11, 12, 20, 21, 24}[r.Intn(12)]
	nb := (n + 9) / 10
	em.Hit(fmt.Sprintf("reg:batches=%d", nb))
	nh := r.Range(2, 5)
	base := 1 + r.U64()%(1<<40)
	prev := make([]byte, n)
	var blocks []string
	anyEligible := false
	for hi := 0; hi < nh; hi++ {
		h := c16Head{Block: fmt.Sprintf("%d", base+uint64(hi)), Active: n, After: r.Chance(80)}
		if hi > 0 && r.Chance(12) {
			h.Block = in.Heads[hi-1].Block // the head ticker delivers the same block again
			em.Hit("reg:same-block-again")
		}
		blocks = append(blocks, h.Block)
		h.AcceptAfter = h.After && r.Chance(35)
		cur := make([]byte, n)
		fresh := func(pe, pi int) {
			for i := range cur {
				switch x := r.Intn(100); {
				case x < pe:
					cur[i] = 'e'
				case x < pe+pi:
					cur[i] = 'i'
				case x < pe+pi+4:
					cur[i] = 'x'
				case x < pe+pi+7:
					cur[i] = 'd'
				default:
					cur[i] = 'p'
				}
			}
		}
		kind := r.Intn(6)
		if hi == 0 {
			kind = 5
		}
		switch kind {
		case 0, 1: // every upkeep paused / cancelled / the registry lags behind the head: no result at all
			em.Hit("reg:vanish")
			if anyEligible {
				em.Hit("reg:vanish-after-eligible")
			}
			for i := range cur {
				cur[i] = 'p'
			}
		case 2: // some of the eligible ones were performed or paused
			em.Hit("reg:shrink")
			for i := range cur {
				cur[i] = prev[i]
				if prev[i] == 'e' && r.Chance(60) {
					cur[i] = "pi"[r.Intn(2)]
				}
			}
		case 3: // the eligible ones are done, others became eligible
			em.Hit("reg:shift")
			for i := range cur {
				if prev[i] == 'e' {
					cur[i] = "pi"[r.Intn(2)]
				} else {
					cur[i] = 'e'
				}
			}
		case 4:
			fresh(30, 30)
		default:
			fresh(65, 15)
		}
		h.Status = string(cur)
		// how the batches are answered
		bk := func(kind string) c16Batch { return c16Batch{Kind: kind} }
		all := func(kinds ...string) {
			for k := 0; k < nb; k++ {
				h.Batches = append(h.Batches, bk(kinds[r.Intn(len(kinds))]))
			}
		}
		one := func(b c16Batch) {
			all("key")
			h.Batches[r.Intn(nb)] = b
		}
		mode := r.Intn(14)
		switch mode {
		case 0:
			em.Hit("reg:all-batches-fail")
			all("err", "errRes")
		case 1:
			em.Hit("reg:one-batch-fails")
			one(bk([]string{"err", "errRes"}[r.Intn(2)]))
		case 2:
			em.Hit("reg:one-batch-empty")
			one(bk([]string{"empty", "nil"}[r.Intn(2)]))
		case 3:
			em.Hit("reg:all-batches-empty")
			all("empty", "nil")
		case 4:
			em.Hit("reg:short-batch")
			one(c16Batch{Kind: "short", N: r.Intn(3)})
		case 5:
			em.Hit("reg:empty-and-failing-batches")
			all("empty", "nil", "err")
		case 6:
			em.Hit("reg:mixture")
			all("key", "empty", "nil", "err", "errRes", "short")
		case 7:
			if nb == 1 { // (one batch: results of different calls cannot name the same key)
				em.Hit("reg:explicit-results")
				b := bk("explicit")
				for j := r.Intn(n + 3); j > 0; j-- {
					key := h.Block + "|" + fmt.Sprintf("%d", r.Range(1, n))
					if r.Chance(10) {
						key = "5|4242"
					}
					b.Results = append(b.Results, c16HeadRes{Key: key, Eligible: r.Chance(70), EligErr: r.Chance(8), DetailErr: r.Chance(6)})
				}
				h.Batches = []c16Batch{b}
			}
		}
		for _, c := range cur {
			if c == 'e' && !(mode == 0 || mode == 3 || mode == 5) {
				anyEligible = true
			}
		}
		if r.Chance(4) {
			h.SrcErr = true
		}
		if r.Chance(3) {
			h.Active = 0
		}
		if r.Chance(30) {
			h.MidAt = r.Range(1, n+1)
			em.Hit("mid-observe")
			if r.Chance(40) {
				h.StallMs = c16Window(in.Cfg) + int64(r.Range(-15, 40))
				em.Hit("stall~window")
			}
		}
		if n <= 10 && r.Chance(12) { // one batch: the call that parks is the head's only one
			h.SlowRun = true
			em.Hit("slow-run")
		}
		in.Heads = append(in.Heads, h)
		prev = cur
	}
	ids := make([]string, n)
	for i := range ids {
		ids[i] = fmt.Sprintf("%d", i+1)
	}
	in.Coord = c16GenCoord(r, ids, blocks, em)
	return in
}

// c16EdgeReg: hand-written registry-level cases.
func c16EdgeReg() []c16Input {
	def := c16Cfg{Batch: 1, GasLimit: 5_300_000, Overhead: 300_000}
	fake := c16Coord{Kind: "fake"}
	reg := &c16Reg{Workers: 4, Queue: 100}
	hd := func(block string, n int, status string, bs ...c16Batch) c16Head {
		return c16Head{Block: block, Active: n, Status: status, Batches: bs, After: true}
	}
	rep := func(s string, n int) string {
		out := ""
		for len(out) < n {
			out += s
		}
		return out[:n]
	}
	b := func(kind string) c16Batch { return c16Batch{Kind: kind} }
	var out []c16Input
	// three upkeeps eligible at block 10, all paused at block 11 (the only batch comes back empty, no error), upkeep 2
	// eligible at block 12
	out = append(out, c16Input{Mode: "obs", Cfg: def, Coord: fake, Reg: reg,
		Heads: []c16Head{hd("10", 3, "eee"), hd("11", 3, "ppp"), hd("12", 3, "iei")}})
	// the same over three batches (24 upkeeps); empty answers as empty lists and as nil slices
	out = append(out, c16Input{Mode: "obs", Cfg: def, Coord: fake, Reg: reg,
		Heads: []c16Head{hd("10", 24, rep("e", 24)), hd("11", 24, rep("e", 24), b("empty"), b("nil"), b("empty")), hd("12", 24, rep("pe", 24))}})
	out = append(out, c16Input{Mode: "obs", Cfg: def, Coord: fake, Reg: &c16Reg{Workers: 1, Queue: 1},
		Heads: []c16Head{hd("10", 12, rep("e", 12)), hd("11", 12, rep("p", 12)), hd("12", 12, rep("p", 12), b("nil"), b("nil")), hd("13", 12, rep("ip", 12))}})
	// every batch fails: the head is not sampled, the previous one stays; one batch fails, one is empty: sampled, nothing
	out = append(out, c16Input{Mode: "obs", Cfg: def, Coord: fake, Reg: reg,
		Heads: []c16Head{hd("10", 12, rep("e", 12)), hd("11", 12, rep("e", 12), b("err"), b("errRes")), hd("12", 12, rep("e", 12), b("err"), b("empty")),
			hd("13", 12, rep("e", 12), b("key"), b("err"))}})
	// fewer results than keys; results next to an error are not used (nor cached: block 11 is delivered again)
	out = append(out, c16Input{Mode: "obs", Cfg: def, Coord: fake, Reg: reg,
		Heads: []c16Head{hd("10", 5, "eeeee", c16Batch{Kind: "short", N: 1}), hd("11", 5, "eeeee", b("errRes")), hd("11", 5, "ppepp"), hd("11", 5, "eeeee")}})
	// report-time check through the runner: no result and no error is "no report", an error is an error
	obs := func(block string, ids ...string) string { return hx(c16RawObs(block, ids)) }
	three := []string{obs("10", "7"), obs("10", "8"), obs("10", "9")}
	out = append(out, c16Input{Mode: "report", Cfg: def, Coord: fake, Reg: reg, Obs: three})
	out = append(out, c16Input{Mode: "report", Cfg: def, Coord: fake, Reg: reg, Obs: three, Script: c16Script{NilRes: true}})
	out = append(out, c16Input{Mode: "report", Cfg: def, Coord: fake, Reg: reg, Obs: three, Script: c16Script{RunErr: true}})
	out = append(out, c16Input{Mode: "report", Cfg: c16Cfg{Batch: 5, GasLimit: 5_300_000, Overhead: 300_000}, Coord: fake, Reg: reg, Obs: three,
		Script: c16Script{Items: []c16Item{{Pos: 2, Eligible: true, Gas: 1}, {Pos: 0, Eligible: false, Gas: 1}}}})
	return out
}
