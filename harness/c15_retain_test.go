package harness

import (
	"bytes"
	"encoding/json"
	"fmt"
	"math/big"
	"runtime"
	"strings"
	"sync"

	ocr2keepersv3 "github.com/smartcontractkit/chainlink-automation/pkg/v3"
	"github.com/smartcontractkit/chainlink-automation/pkg/v3/types"
	ocr2keepers "github.com/smartcontractkit/chainlink-common/pkg/types/automation"
)

// C15, state carried across calls: a message returned by Encode must stay what
// it was while later messages are encoded (also on other goroutines), and a
// decoded value must not depend on the input buffer after Decode has returned.

// c15SameWidth maps a byte to a different byte with the same number of decimal digits.
func c15SameWidth(b byte) byte {
	switch {
	case b < 10:
		return (b + 1) % 10
	case b < 100:
		return 10 + (b-10+1)%90
	}
	return 100 + byte((int(b)-100+1)%156)
}

func c15TwinHash(h [32]byte) [32]byte {
	for i := range h {
		h[i] = c15SameWidth(h[i])
	}
	return h
}

// c15TwinWID changes the first byte of a work id to another plain ASCII letter (same encoded length).
func c15TwinWID(s string) string {
	if s == "" || s[0] < '0' || s[0] > 'z' || s[0] == '<' || s[0] == '>' || s[0] == '\\' {
		return s
	}
	c := byte('a')
	if s[0] == 'a' {
		c = 'b'
	}
	return string(c) + s[1:]
}

func c15TwinTrigger(t ocr2keepers.Trigger) ocr2keepers.Trigger {
	t.BlockHash = c15TwinHash(t.BlockHash)
	if t.LogTriggerExtension != nil {
		e := *t.LogTriggerExtension
		e.TxHash = c15TwinHash(e.TxHash)
		t.LogTriggerExtension = &e
	}
	return t
}

func c15TwinResults(rs []ocr2keepers.CheckResult) []ocr2keepers.CheckResult {
	if rs == nil {
		return nil
	}
	out := make([]ocr2keepers.CheckResult, len(rs))
	for i, r := range rs { // reversed order, every hash and work id altered, lengths kept
		r.Trigger = c15TwinTrigger(r.Trigger)
		r.WorkID = c15TwinWID(r.WorkID)
		out[len(rs)-1-i] = r
	}
	return out
}

func c15TwinProposals(ps []ocr2keepers.CoordinatedBlockProposal) []ocr2keepers.CoordinatedBlockProposal {
	if ps == nil {
		return nil
	}
	out := make([]ocr2keepers.CoordinatedBlockProposal, len(ps))
	for i, p := range ps {
		p.Trigger = c15TwinTrigger(p.Trigger)
		p.WorkID = c15TwinWID(p.WorkID)
		out[len(ps)-1-i] = p
	}
	return out
}

// c15TwinObs: a different observation whose encoding has exactly the length of o's.
func c15TwinObs(o ocr2keepersv3.AutomationObservation) ocr2keepersv3.AutomationObservation {
	t := ocr2keepersv3.AutomationObservation{Performable: c15TwinResults(o.Performable), UpkeepProposals: c15TwinProposals(o.UpkeepProposals)}
	if o.BlockHistory != nil {
		t.BlockHistory = make(ocr2keepers.BlockHistory, len(o.BlockHistory))
		for i, b := range o.BlockHistory {
			b.Hash = c15TwinHash(b.Hash)
			t.BlockHistory[len(o.BlockHistory)-1-i] = b
		}
	}
	return t
}

func c15TwinOutcome(o ocr2keepersv3.AutomationOutcome) ocr2keepersv3.AutomationOutcome {
	t := ocr2keepersv3.AutomationOutcome{AgreedPerformables: c15TwinResults(o.AgreedPerformables)}
	if o.SurfacedProposals != nil {
		t.SurfacedProposals = make([][]ocr2keepers.CoordinatedBlockProposal, len(o.SurfacedProposals))
		for i, round := range o.SurfacedProposals { // rounds keep their place (their lengths differ), contents change
			t.SurfacedProposals[i] = c15TwinProposals(round)
		}
	}
	return t
}

func c15FirstDiff(want, got []byte) string {
	i := 0
	for i < len(want) && i < len(got) && want[i] == got[i] {
		i++
	}
	lo := max(0, i-30)
	return fmt.Sprintf("the bytes returned by Encode changed after a later Encode call (len %d -> %d, first difference at byte %d: …%s  became  …%s)",
		len(want), len(got), i, c15Short(string(want[lo:min(len(want), i+30)])), c15Short(string(got[lo:min(len(got), i+30)])))
}

// c15DecodeRetained decodes data (which this function may destroy) and then
// overwrites the input buffer: the value returned by Decode must not change.
func c15DecodeRetained(kind string, data []byte, impl *c15Impl) {
	defer func() {
		if r := recover(); r != nil {
			impl.Panic, impl.Err = "recovered: "+c15Short(fmt.Sprint(r)), "panic"
		}
	}()
	scribble := func() {
		for i := range data {
			data[i] = '#'
		}
	}
	if kind == "obs" {
		o, err := ocr2keepersv3.DecodeAutomationObservation(data, utg, wg)
		impl.Err = c15Classify(err)
		if err != nil {
			impl.ErrText = c15Short(err.Error())
			return
		}
		impl.Obs = c15ObsToJ(o)
		before := must(json.Marshal(impl.Obs))
		scribble()
		if after := must(json.Marshal(c15ObsToJ(o))); !bytes.Equal(before, after) && impl.Alias == "" {
			impl.Alias = "decode: the decoded value changed when the input buffer was overwritten"
		}
		return
	}
	o, err := ocr2keepersv3.DecodeAutomationOutcome(data, utg, wg)
	impl.Err = c15Classify(err)
	if err != nil {
		impl.ErrText = c15Short(err.Error())
		return
	}
	impl.Outcome = c15OutcomeToJ(o)
	before := must(json.Marshal(impl.Outcome))
	scribble()
	if after := must(json.Marshal(c15OutcomeToJ(o))); !bytes.Equal(before, after) && impl.Alias == "" {
		impl.Alias = "decode: the decoded value changed when the input buffer was overwritten"
	}
}

// c15EncodeStress: concurrent Encode calls.  Eight messages of one encoded
// length are encoded once sequentially (reference copies), then eight
// goroutines encode them over and over, yield, and compare what they hold with
// the reference.  No clocks, fixed iteration counts; a sound encoder passes on
// every schedule.
func c15EncodeStress(kind string, impl *c15Impl) {
	const msgs, workers, iters = 8, 8, 300
	r := NewRng(770077)
	encs := make([]func() ([]byte, error), msgs)
	if kind == "obs" {
		o, _, _ := c15SmallObs(r, 1)
		for i := range encs {
			v := o
			encs[i] = v.Encode
			o = c15TwinObs(o)
		}
	} else {
		o, _, _, _ := c15SmallOutcome(r, 1)
		for i := range encs {
			v := o
			encs[i] = v.Encode
			o = c15TwinOutcome(o)
		}
	}
	refs := make([][]byte, msgs)
	for i, enc := range encs {
		b, err := enc()
		if err != nil {
			impl.Err, impl.ErrText = "malformed", "encode: "+err.Error()
			return
		}
		refs[i] = append([]byte(nil), b...)
	}
	impl.Text = string(refs[0])
	var mu sync.Mutex
	var wgrp sync.WaitGroup
	for w := 0; w < workers; w++ {
		wgrp.Add(1)
		go func(w int) {
			defer wgrp.Done()
			for k := 0; k < iters; k++ {
				i := (w + k) % msgs
				b, err := encs[i]()
				runtime.Gosched()
				if err != nil || !bytes.Equal(b, refs[i]) {
					mu.Lock()
					if impl.Alias == "" {
						impl.Alias = "concurrent encode: " + c15FirstDiff(refs[i], b)
					}
					mu.Unlock()
					return
				}
			}
		}(w)
	}
	wgrp.Wait()
	c15Decode(kind, refs[0], impl, nil) // the answer on the first message, as in the other modes
}

// ---------------------------------------------------------------- the same bytes, decoded again

// Every decode must stand on its own: the same bytes decoded a second time give
// the same answer whatever happened to the first result, and the answer follows
// the (utg, wg) pair of THAT call.

// c15UtgAlt / c15WgAlt: the second pair.  Condition and log upkeeps swap their
// types, every work id gets a prefix.  The driver derives the same pair from
// the tables of the first one (Drv/C15.lean: altUtg, altWg).
func c15UtgAlt(id ocr2keepers.UpkeepIdentifier) types.UpkeepType {
	switch t := utg(id); t {
	case types.ConditionTrigger:
		return types.LogTrigger
	case types.LogTrigger:
		return types.ConditionTrigger
	default:
		return t
	}
}

func c15WgAlt(id ocr2keepers.UpkeepIdentifier, trig ocr2keepers.Trigger) string {
	return "alt:" + wg(id, trig)
}

type c15Answer struct {
	Panic   string    `json:"panic"`
	Err     string    `json:"err"`
	Same    bool      `json:"same,omitempty"` // accepted, and the value equals the one of the first decode (impl.obs / impl.outcome)
	Obs     *JObs     `json:"obs,omitempty"`
	Outcome *JOutcome `json:"outcome,omitempty"`
}

// c15Trash… overwrite everything reachable from a decoded value: through the
// pointers (extension, big integers), the byte slices and the list elements.
func c15TrashTrigger(t *ocr2keepers.Trigger) {
	if t.LogTriggerExtension != nil {
		*t.LogTriggerExtension = ocr2keepers.LogTriggerExtension{Index: 99, BlockNumber: 0}
	}
}

func c15TrashResults(rs []ocr2keepers.CheckResult) {
	for i := range rs {
		c15TrashTrigger(&rs[i].Trigger)
		if rs[i].FastGasWei != nil {
			rs[i].FastGasWei.SetInt64(-7)
		}
		if rs[i].LinkNative != nil {
			rs[i].LinkNative.Lsh(big.NewInt(1), 300)
		}
		for k := range rs[i].PerformData {
			rs[i].PerformData[k] = 0xAA
		}
		rs[i] = ocr2keepers.CheckResult{GasAllocated: 1, WorkID: "trashed"}
	}
}

func c15TrashProposals(ps []ocr2keepers.CoordinatedBlockProposal) {
	for i := range ps {
		c15TrashTrigger(&ps[i].Trigger)
		ps[i] = ocr2keepers.CoordinatedBlockProposal{WorkID: "trashed"}
	}
}

func c15DecodeObsWith(data []byte, u types.UpkeepTypeGetter, w types.WorkIDGenerator) (a c15Answer, o ocr2keepersv3.AutomationObservation) {
	defer func() {
		if r := recover(); r != nil {
			a = c15Answer{Panic: "recovered: " + c15Short(fmt.Sprint(r)), Err: "panic"}
		}
	}()
	o, err := ocr2keepersv3.DecodeAutomationObservation(append([]byte(nil), data...), u, w)
	a.Err = c15Classify(err)
	if err == nil {
		a.Obs = c15ObsToJ(o)
	}
	return a, o
}

func c15DecodeOutcomeWith(data []byte, u types.UpkeepTypeGetter, w types.WorkIDGenerator) (a c15Answer, o ocr2keepersv3.AutomationOutcome) {
	defer func() {
		if r := recover(); r != nil {
			a = c15Answer{Panic: "recovered: " + c15Short(fmt.Sprint(r)), Err: "panic"}
		}
	}()
	o, err := ocr2keepersv3.DecodeAutomationOutcome(append([]byte(nil), data...), u, w)
	a.Err = c15Classify(err)
	if err == nil {
		a.Outcome = c15OutcomeToJ(o)
	}
	return a, o
}

// c15Repeat decodes data three more times (the first decode has filled impl):
// a fresh decode whose result is then trashed, a decode under the first pair
// (Again), one under the second pair (Alt), and one under the first pair after
// that (Back).  Values equal to the first answer are not repeated on the line.
func c15Repeat(kind string, data []byte, impl *c15Impl) {
	if impl.Panic != "" {
		return
	}
	first := ""
	if impl.Err == "ok" {
		if kind == "obs" {
			first = string(must(json.Marshal(impl.Obs)))
		} else {
			first = string(must(json.Marshal(impl.Outcome)))
		}
	}
	run := func(u types.UpkeepTypeGetter, w types.WorkIDGenerator, trash bool) *c15Answer {
		var a c15Answer
		if kind == "obs" {
			var o ocr2keepersv3.AutomationObservation
			a, o = c15DecodeObsWith(data, u, w)
			if trash && a.Err == "ok" {
				c15TrashResults(o.Performable)
				c15TrashProposals(o.UpkeepProposals)
				for i := range o.BlockHistory {
					o.BlockHistory[i] = ocr2keepers.BlockKey{Number: 12345}
				}
			}
			if a.Obs != nil && first != "" && string(must(json.Marshal(a.Obs))) == first {
				a.Same, a.Obs = true, nil
			}
		} else {
			var o ocr2keepersv3.AutomationOutcome
			a, o = c15DecodeOutcomeWith(data, u, w)
			if trash && a.Err == "ok" {
				c15TrashResults(o.AgreedPerformables)
				for _, round := range o.SurfacedProposals {
					c15TrashProposals(round)
				}
				for i := range o.SurfacedProposals {
					o.SurfacedProposals[i] = nil
				}
			}
			if a.Outcome != nil && first != "" && string(must(json.Marshal(a.Outcome))) == first {
				a.Same, a.Outcome = true, nil
			}
		}
		return &a
	}
	run(utg, wg, true) // the result a consumer got and wrote into
	impl.Again = run(utg, wg, false)
	impl.Alt = run(c15UtgAlt, c15WgAlt, false)
	impl.Back = run(utg, wg, false)
	if impl.Alias == "" {
		for _, a := range []*c15Answer{impl.Again, impl.Back} {
			if a.Err != impl.Err || (impl.Err == "ok" && !a.Same) {
				if a.Err == impl.Err {
					impl.Alias = "decode: the same bytes, decoded again under the same (utg, wg), gave another value (an earlier result had been written to in between)"
				} else {
					impl.Alias = fmt.Sprintf("decode: the same bytes, decoded again under the same (utg, wg), were answered %q instead of %q", a.Err, impl.Err)
				}
				break
			}
		}
	}
}

// c15DecodeStress: concurrent Decode calls, observations with long, overlapping
// block histories and outcomes.  The messages are decoded once sequentially
// (reference answers, among them one message that must be rejected for a
// duplicate block number), then eight goroutines decode them over and over and
// compare.  No clocks, fixed counts.  A fatal runtime error (e.g. concurrent map
// writes) kills the child process and is reported by the parent.
func c15DecodeStress(kind string, impl *c15Impl) {
	const msgs, workers, iters = 8, 8, 250
	r := NewRng(880088)
	datas := make([][]byte, 0, msgs)
	for i := 0; i < msgs; i++ {
		if kind == "obs" {
			o, _, _ := c15SmallObs(r, c15Class(r))
			o.BlockHistory = c15History(r, ocr2keepersv3.ObservationBlockHistoryLimit-r.Intn(3))
			base := uint64(1_000_000 + 40*i) // overlapping windows of consecutive numbers
			for k := range o.BlockHistory {
				o.BlockHistory[k].Number = ocr2keepers.BlockNumber(base - uint64(k))
			}
			if i == msgs-1 { // the one that has to be rejected every time
				o.BlockHistory[len(o.BlockHistory)-1].Number = o.BlockHistory[3].Number
			}
			datas = append(datas, must(o.Encode()))
		} else {
			o, _, _, _ := c15SmallOutcome(r, c15Class(r))
			if i == msgs-1 {
				dup := o.AgreedPerformables[0]
				o.AgreedPerformables = append(o.AgreedPerformables, dup)
			}
			datas = append(datas, must(o.Encode()))
		}
	}
	decode := func(d []byte) string {
		if kind == "obs" {
			a, _ := c15DecodeObsWith(d, utg, wg)
			return a.Panic + "|" + a.Err + "|" + string(must(json.Marshal(a.Obs)))
		}
		a, _ := c15DecodeOutcomeWith(d, utg, wg)
		return a.Panic + "|" + a.Err + "|" + string(must(json.Marshal(a.Outcome)))
	}
	refs := make([]string, msgs)
	for i, d := range datas {
		refs[i] = decode(d)
	}
	impl.Text = string(datas[0])
	var mu sync.Mutex
	var wgrp sync.WaitGroup
	for w := 0; w < workers; w++ {
		wgrp.Add(1)
		go func(w int) {
			defer wgrp.Done()
			for k := 0; k < iters; k++ {
				i := (w + k) % msgs
				if got := decode(datas[i]); got != refs[i] {
					mu.Lock()
					if impl.Alias == "" {
						g, want := strings.SplitN(got, "|", 3), strings.SplitN(refs[i], "|", 3)
						impl.Alias = fmt.Sprintf("concurrent decode: message %d answered %q (panic %q) instead of %q, or with another value, while other decoders were running", i, g[1], g[0], want[1])
					}
					mu.Unlock()
					return
				}
			}
		}(w)
	}
	wgrp.Wait()
	c15Decode(kind, datas[0], impl, nil)
}
