package harness

import (
	"bytes"
	"encoding/json"
	"fmt"
	"runtime"
	"sync"

	ocr2keepersv3 "github.com/smartcontractkit/chainlink-automation/pkg/v3"
	ocr2keepers "github.com/smartcontractkit/chainlink-common/pkg/types/automation"
)

// C15, state carried across calls: a message returned by Encode must stay what
// it was while later messages are encoded (also on other goroutines), and a
// decoded value must not depend on the input buffer after Decode has returned.

// c15SameWidth maps a byte to a different byte with the same number of decimal digits.
func c15SameWidth(b byte) byte {
	switch {
	case b < 10:
		return (b + 1) % 10
	case b < 100:
		return 10 + (b-10+1)%90
	}
	return 100 + byte((int(b)-100+1)%156)
}

func c15TwinHash(h [32]byte) [32]byte {
	for i := range h {
		h[i] = c15SameWidth(h[i])
	}
	return h
}

// c15TwinWID changes the first byte of a work id to another plain ASCII letter (same encoded length).
func c15TwinWID(s string) string {
	if s == "" || s[0] < '0' || s[0] > 'z' || s[0] == '<' || s[0] == '>' || s[0] == '\\' {
		return s
	}
	c := byte('a')
	if s[0] == 'a' {
		c = 'b'
	}
	return string(c) + s[1:]
}

func c15TwinTrigger(t ocr2keepers.Trigger) ocr2keepers.Trigger {
	t.BlockHash = c15TwinHash(t.BlockHash)
	if t.LogTriggerExtension != nil {
		e := *t.LogTriggerExtension
		e.TxHash = c15TwinHash(e.TxHash)
		t.LogTriggerExtension = &e
	}
	return t
}

func c15TwinResults(rs []ocr2keepers.CheckResult) []ocr2keepers.CheckResult {
	if rs == nil {
		return nil
	}
	out := make([]ocr2keepers.CheckResult, len(rs))
	for i, r := range rs { // reversed order, every hash and work id altered, lengths kept
		r.Trigger = c15TwinTrigger(r.Trigger)
		r.WorkID = c15TwinWID(r.WorkID)
		out[len(rs)-1-i] = r
	}
	return out
}

func c15TwinProposals(ps []ocr2keepers.CoordinatedBlockProposal) []ocr2keepers.CoordinatedBlockProposal {
	if ps == nil {
		return nil
	}
	out := make([]ocr2keepers.CoordinatedBlockProposal, len(ps))
	for i, p := range ps {
		p.Trigger = c15TwinTrigger(p.Trigger)
		p.WorkID = c15TwinWID(p.WorkID)
		out[len(ps)-1-i] = p
	}
	return out
}

// c15TwinObs: a different observation whose encoding has exactly the length of o's.
func c15TwinObs(o ocr2keepersv3.AutomationObservation) ocr2keepersv3.AutomationObservation {
	t := ocr2keepersv3.AutomationObservation{Performable: c15TwinResults(o.Performable), UpkeepProposals: c15TwinProposals(o.UpkeepProposals)}
	if o.BlockHistory != nil {
		t.BlockHistory = make(ocr2keepers.BlockHistory, len(o.BlockHistory))
		for i, b := range o.BlockHistory {
			b.Hash = c15TwinHash(b.Hash)
			t.BlockHistory[len(o.BlockHistory)-1-i] = b
		}
	}
	return t
}

func c15TwinOutcome(o ocr2keepersv3.AutomationOutcome) ocr2keepersv3.AutomationOutcome {
	t := ocr2keepersv3.AutomationOutcome{AgreedPerformables: c15TwinResults(o.AgreedPerformables)}
	if o.SurfacedProposals != nil {
		t.SurfacedProposals = make([][]ocr2keepers.CoordinatedBlockProposal, len(o.SurfacedProposals))
		for i, round := range o.SurfacedProposals { // rounds keep their place (their lengths differ), contents change
			t.SurfacedProposals[i] = c15TwinProposals(round)
		}
	}
	return t
}

func c15FirstDiff(want, got []byte) string {
	i := 0
	for i < len(want) && i < len(got) && want[i] == got[i] {
		i++
	}
	lo := max(0, i-30)
	return fmt.Sprintf("the bytes returned by Encode changed after a later Encode call (len %d -> %d, first difference at byte %d: …%s  became  …%s)",
		len(want), len(got), i, c15Short(string(want[lo:min(len(want), i+30)])), c15Short(string(got[lo:min(len(got), i+30)])))
}

// c15DecodeRetained decodes data (which this function may destroy) and then
// overwrites the input buffer: the value returned by Decode must not change.
func c15DecodeRetained(kind string, data []byte, impl *c15Impl) {
	defer func() {
		if r := recover(); r != nil {
			impl.Panic, impl.Err = "recovered: "+c15Short(fmt.Sprint(r)), "panic"
		}
	}()
	scribble := func() {
		for i := range data {
			data[i] = '#'
		}
	}
	if kind == "obs" {
		o, err := ocr2keepersv3.DecodeAutomationObservation(data, utg, wg)
		impl.Err = c15Classify(err)
		if err != nil {
			impl.ErrText = c15Short(err.Error())
			return
		}
		impl.Obs = c15ObsToJ(o)
		before := must(json.Marshal(impl.Obs))
		scribble()
		if after := must(json.Marshal(c15ObsToJ(o))); !bytes.Equal(before, after) && impl.Alias == "" {
			impl.Alias = "decode: the decoded value changed when the input buffer was overwritten"
		}
		return
	}
	o, err := ocr2keepersv3.DecodeAutomationOutcome(data, utg, wg)
	impl.Err = c15Classify(err)
	if err != nil {
		impl.ErrText = c15Short(err.Error())
		return
	}
	impl.Outcome = c15OutcomeToJ(o)
	before := must(json.Marshal(impl.Outcome))
	scribble()
	if after := must(json.Marshal(c15OutcomeToJ(o))); !bytes.Equal(before, after) && impl.Alias == "" {
		impl.Alias = "decode: the decoded value changed when the input buffer was overwritten"
	}
}

// c15EncodeStress: concurrent Encode calls.  Eight messages of one encoded
// length are encoded once sequentially (reference copies), then eight
// goroutines encode them over and over, yield, and compare what they hold with
// the reference.  No clocks, fixed iteration counts; a sound encoder passes on
// every schedule.
func c15EncodeStress(kind string, impl *c15Impl) {
	const msgs, workers, iters = 8, 8, 300
	r := NewRng(770077)
	encs := make([]func() ([]byte, error), msgs)
	if kind == "obs" {
		o, _, _ := c15SmallObs(r, 1)
		for i := range encs {
			v := o
			encs[i] = v.Encode
			o = c15TwinObs(o)
		}
	} else {
		o, _, _, _ := c15SmallOutcome(r, 1)
		for i := range encs {
			v := o
			encs[i] = v.Encode
			o = c15TwinOutcome(o)
		}
	}
	refs := make([][]byte, msgs)
	for i, enc := range encs {
		b, err := enc()
		if err != nil {
			impl.Err, impl.ErrText = "malformed", "encode: "+err.Error()
			return
		}
		refs[i] = append([]byte(nil), b...)
	}
	impl.Text = string(refs[0])
	var mu sync.Mutex
	var wgrp sync.WaitGroup
	for w := 0; w < workers; w++ {
		wgrp.Add(1)
		go func(w int) {
			defer wgrp.Done()
			for k := 0; k < iters; k++ {
				i := (w + k) % msgs
				b, err := encs[i]()
				runtime.Gosched()
				if err != nil || !bytes.Equal(b, refs[i]) {
					mu.Lock()
					if impl.Alias == "" {
						impl.Alias = "concurrent encode: " + c15FirstDiff(refs[i], b)
					}
					mu.Unlock()
					return
				}
			}
		}(w)
	}
	wgrp.Wait()
	c15Decode(kind, refs[0], impl, nil) // the answer on the first message, as in the other modes
}
