package harness

import (
	"context"
	"fmt"
	"strings"
	"sync/atomic"
	"testing"
	"testing/synctest"

	"github.com/smartcontractkit/chainlink-automation/pkg/util"
)

// C14 — direct use of the worker group's exported API and of util.Queue (input.via = "direct").
//
// RunJobs is one client of the group; Do / NotifyResult / Results / RemoveGroup and the type Queue
// are exported.  A direct client can do what RunJobs never does — RemoveGroup(g) while a job of
// group g is still running — and then storeResult finds no entry for the group and re-creates it
// (its two `if !ok` arms); Queue.Pop on an empty queue returns an error (processQueue tests Len()
// first and is the only consumer, so it never sees that).  A case is a list of calls; after every
// call the harness waits until every goroutine of the bubble is durably blocked, so the outcome
// of each call is determined, and reports it.  The driver runs the same calls on the store model
// that keeps map entries (Model/C14.lean `dstep`), compares the outcomes exactly and evaluates the
// Spec predicate for direct histories (Spec/C14.lean `directSpec`: each stored result handed out
// exactly once unless the client wiped its group, a token on the group's channel for every store,
// refused items leave nothing, running job functions <= workers, Queue is FIFO) on both.
//
// Job functions wait until the harness lets them return ("finish"); the generator keeps a copy of
// the pool (jobs start in acceptance order as workers are free) and only finishes running jobs.
//
// "watch" / "poll-held": the client fetches a group's channel with NotifyResult and KEEPS it, as the
// reader goroutine of RunJobs does while it sleeps (it asks for the channel again only after a
// wake-up); "poll-held" is a non-blocking receive on the kept channel object.  As long as the group
// itself was not removed, a result stored for it must arrive there — with 3 groups registered on the
// worker group or with 300 (Props/C14.lean watcher_woken, remove_touches_own_group_only); one call
// of Results hands out everything stored, 3 results or 3000 (results_takes_all).  VOLUME cases
// (c14GenDirectVolume): crowds of groups with waiting readers while other groups finish and are
// removed; hundreds or thousands of results of one group under one token.

type c14Op struct {
	Op string `json:"op"` // submit | submit-cancelled | finish | remove | results | poll | q-add | q-pop | q-len | watch | poll-held
	G  int    `json:"g"`  // group
	V  int    `json:"v"`  // job id (>= 1; the job's result)
	Vs []int  `json:"vs,omitempty"`
}

type c14Out struct {
	K    string `json:"k"` // accepted | refused | finished | unit | vals | token | popped | len
	N    int    `json:"n"`
	B    bool   `json:"b"`
	None bool   `json:"none"`
	Vals []int  `json:"vals"`
}

func c14RunDirect(t *testing.T, in c14Input) (impl c14Impl) {
	impl.Phase = "final"
	defer func() {
		if r := recover(); r != nil {
			msg := fmt.Sprint(r)
			if strings.Contains(msg, "deadlock: main bubble goroutine has exited") {
				impl.Deadlocked = true
				impl.Panic = "bubble ended with blocked goroutines"
			} else {
				impl.Panic = msg
			}
		}
	}()
	synctest.Test(t, func(t *testing.T) {
		base := c14BubbleGoroutines()
		grp := util.NewWorkerGroup[int](in.Workers, 10)
		q := &util.Queue[int]{}
		live := context.Background()
		dead, cancel := context.WithCancel(context.Background())
		cancel()
		release := map[int]chan struct{}{}
		released := map[int]bool{}
		held := map[int]<-chan struct{}{}
		var running, maxRunning atomic.Int64
		outs := make([]c14Out, 0, len(in.Ops))
		for _, op := range in.Ops {
			switch op.Op {
			case "submit", "submit-cancelled":
				ch := make(chan struct{})
				v := op.V
				ctx := live
				if op.Op == "submit-cancelled" {
					ctx = dead
				} else {
					release[v] = ch
				}
				err := grp.Do(ctx, func(context.Context) (int, error) {
					cur := running.Add(1)
					for {
						m := maxRunning.Load()
						if cur <= m || maxRunning.CompareAndSwap(m, cur) {
							break
						}
					}
					defer running.Add(-1)
					<-ch
					return v, nil
				}, op.G)
				synctest.Wait()
				if err != nil {
					outs = append(outs, c14Out{K: "refused"})
				} else {
					outs = append(outs, c14Out{K: "accepted", N: int(running.Load())})
				}
			case "finish":
				if ch, ok := release[op.V]; ok && !released[op.V] {
					released[op.V] = true
					close(ch)
				}
				synctest.Wait()
				outs = append(outs, c14Out{K: "finished", N: int(running.Load())})
			case "remove":
				grp.RemoveGroup(op.G)
				outs = append(outs, c14Out{K: "unit"})
			case "results":
				o := c14Out{K: "vals", Vals: []int{}}
				for _, r := range grp.Results(op.G) {
					v := r.Data
					if r.Err != nil || r.Worker == "" {
						v += 1_000_000 // not the result the job function returned
					}
					o.Vals = append(o.Vals, v)
				}
				outs = append(outs, o)
			case "poll":
				o := c14Out{K: "token"}
				select {
				case <-grp.NotifyResult(op.G):
					o.B = true
				default:
				}
				outs = append(outs, o)
			case "watch":
				held[op.G] = grp.NotifyResult(op.G)
				outs = append(outs, c14Out{K: "unit"})
			case "poll-held":
				o := c14Out{K: "token"}
				if ch, ok := held[op.G]; ok {
					select {
					case <-ch:
						o.B = true
					default:
					}
				}
				outs = append(outs, o)
			case "q-add":
				q.Add(op.Vs...)
				outs = append(outs, c14Out{K: "unit"})
			case "q-pop":
				v, err := q.Pop()
				if err != nil {
					if v != 0 {
						v += 1_000_000 // an error must come with the zero value
						outs = append(outs, c14Out{K: "popped", N: v})
					} else {
						outs = append(outs, c14Out{K: "popped", None: true})
					}
				} else {
					outs = append(outs, c14Out{K: "popped", N: v})
				}
			case "q-len":
				outs = append(outs, c14Out{K: "len", N: q.Len()})
			default:
				panic("c14 direct: unknown op " + op.Op)
			}
		}
		impl.Outs = outs
		impl.MaxConc = int(maxRunning.Load())
		// wind down: let every job function return, stop the group, count what is left
		for v, ch := range release {
			if !released[v] {
				released[v] = true
				close(ch)
			}
		}
		synctest.Wait()
		grp.Stop()
		synctest.Wait()
		impl.Leaked = c14BubbleGoroutines() - base
	})
	return impl
}

// ---------------------------------------------------------------- cases

// c14DirectEdge: the paths the RunJobs cases cannot reach, one by one
func c14DirectEdge() []c14Input {
	mk := func(workers int, ops ...c14Op) c14Input {
		return c14Input{Via: "direct", Workers: workers, Mode: "none", JobKind: "hold", Ops: ops}
	}
	sub := func(g, v int) c14Op { return c14Op{Op: "submit", G: g, V: v} }
	fin := func(g, v int) c14Op { return c14Op{Op: "finish", G: g, V: v} }
	rem := func(g int) c14Op { return c14Op{Op: "remove", G: g} }
	res := func(g int) c14Op { return c14Op{Op: "results", G: g} }
	poll := func(g int) c14Op { return c14Op{Op: "poll", G: g} }
	return []c14Input{
		// a result stored after RemoveGroup of its group: both `if !ok` arms of storeResult
		mk(1, sub(7, 1), rem(7), fin(7, 1), poll(7), res(7), poll(7), res(7)),
		// one result wiped, the next one (stored after the wipe) kept, alone
		mk(2, sub(7, 1), sub(7, 2), fin(7, 1), rem(7), fin(7, 2), poll(7), res(7)),
		// the token of a wiped group does not survive; the late result brings its own
		mk(1, sub(3, 1), fin(3, 1), rem(3), poll(3), sub(3, 2), rem(3), fin(3, 2), poll(3), poll(3), res(3)),
		// two groups: removing one does not touch the other
		mk(2, sub(1, 1), sub(2, 2), rem(1), fin(1, 1), fin(2, 2), res(2), res(1), poll(1), poll(2)),
		// a queued job (one worker) whose group is removed before it even starts
		mk(1, sub(5, 1), sub(5, 2), rem(5), fin(5, 1), fin(5, 2), res(5)),
		// Results / NotifyResult on groups that never had an entry; a refused item leaves nothing
		mk(1, res(9), poll(9), c14Op{Op: "submit-cancelled", G: 4}, res(4), poll(4)),
		// several results under one token
		mk(3, sub(1, 1), sub(1, 2), sub(1, 3), fin(1, 2), fin(1, 1), fin(1, 3), poll(1), poll(1), res(1), res(1)),
		// a kept channel: woken by a result of its group although other groups were removed meanwhile;
		// dead once its own group was removed (the late result goes to a new channel)
		mk(3, sub(1, 1), sub(2, 2), sub(3, 3), c14Op{Op: "watch", G: 2}, fin(1, 1), res(1), rem(1), rem(3), rem(4),
			fin(2, 2), c14Op{Op: "poll-held", G: 2}, c14Op{Op: "poll-held", G: 2}, res(2)),
		mk(1, sub(7, 1), c14Op{Op: "watch", G: 7}, rem(7), fin(7, 1), c14Op{Op: "poll-held", G: 7}, poll(7), res(7),
			c14Op{Op: "poll-held", G: 9}),
		mk(1, sub(7, 1), fin(7, 1), c14Op{Op: "watch", G: 7}, rem(7), c14Op{Op: "poll-held", G: 7}, c14Op{Op: "poll-held", G: 7}, poll(7)),
		// Queue: Pop on the empty queue (fresh, and emptied), FIFO order, Len
		mk(1, c14Op{Op: "q-pop"}, c14Op{Op: "q-len"}, c14Op{Op: "q-add", Vs: []int{4, 5, 6}}, c14Op{Op: "q-len"},
			c14Op{Op: "q-pop"}, c14Op{Op: "q-pop"}, c14Op{Op: "q-add", Vs: []int{7}}, c14Op{Op: "q-pop"}, c14Op{Op: "q-pop"},
			c14Op{Op: "q-pop"}, c14Op{Op: "q-len"}, c14Op{Op: "q-add"}, c14Op{Op: "q-pop"}),
	}
}

// c14GenDirect: a random list of calls.  The generator keeps a copy of the pool (running / queued jobs,
// FIFO) so that "finish" always names a running job; it ends by finishing everything and draining
// every group, so that "each stored result is handed out exactly once" is decided within the case.
func c14GenDirect(r *Rng) c14Input {
	in := c14Input{Via: "direct", Mode: "none", JobKind: "hold"}
	in.Workers = []int{1, 1, 2, 2, 3, 4}[r.Intn(6)]
	ngroups := r.Range(1, 3)
	grp := func() int { return 1 + r.Intn(ngroups) }
	type job struct{ g, v int }
	var running, queued []job
	next := 1
	qlen := 0
	finish := func(i int) {
		j := running[i]
		running = append(running[:i], running[i+1:]...)
		in.Ops = append(in.Ops, c14Op{Op: "finish", G: j.g, V: j.v})
		if len(queued) > 0 {
			running = append(running, queued[0])
			queued = queued[1:]
		}
	}
	n := r.Range(4, 40)
	for len(in.Ops) < n {
		switch k := r.Intn(100); {
		case k < 26:
			j := job{grp(), next}
			next++
			in.Ops = append(in.Ops, c14Op{Op: "submit", G: j.g, V: j.v})
			if len(running) < in.Workers {
				running = append(running, j)
			} else {
				queued = append(queued, j)
			}
		case k < 50:
			if len(running) > 0 {
				finish(r.Intn(len(running)))
			}
		case k < 63:
			g := grp()
			if len(running) > 0 && r.Chance(60) {
				g = running[r.Intn(len(running))].g // the group of a job in flight
			}
			in.Ops = append(in.Ops, c14Op{Op: "remove", G: g})
		case k < 77:
			in.Ops = append(in.Ops, c14Op{Op: "results", G: grp()})
		case k < 87:
			in.Ops = append(in.Ops, c14Op{Op: "poll", G: grp()})
		case k < 90:
			in.Ops = append(in.Ops, c14Op{Op: "submit-cancelled", G: grp()})
		case k < 94:
			var vs []int
			for i, m := 0, r.Intn(4); i < m; i++ {
				vs = append(vs, 1+r.Intn(1000))
			}
			qlen += len(vs)
			in.Ops = append(in.Ops, c14Op{Op: "q-add", Vs: vs})
		case k < 98:
			if qlen > 0 {
				qlen--
			}
			in.Ops = append(in.Ops, c14Op{Op: "q-pop"})
		default:
			in.Ops = append(in.Ops, c14Op{Op: "q-len"})
		}
	}
	for len(running) > 0 {
		finish(0)
	}
	for g := 1; g <= ngroups; g++ {
		in.Ops = append(in.Ops, c14Op{Op: "poll", G: g}, c14Op{Op: "results", G: g}, c14Op{Op: "results", G: g})
	}
	for ; qlen >= 0; qlen-- {
		in.Ops = append(in.Ops, c14Op{Op: "q-pop"}) // down to (and including) the Pop on the empty queue
	}
	return in
}

// c14GenDirectVolume: the two VOLUME shapes at the level of the group's own API.
//   crowd: 65 … several hundred groups, one or two jobs each, on a few workers; the client fetches and
//     keeps the channel of every group (a parked reader per group); jobs finish one after the other, a
//     finished group is collected (poll-held, results) and REMOVED while the others still wait; every
//     group must be woken on the channel it kept.
//   long list: one or two groups with 257 … several thousand jobs; all finish before the client looks;
//     ONE token, ONE call of Results must hand out all of them, oldest first.
func c14GenDirectVolume(r *Rng, i, scale int) c14Input {
	in := c14Input{Via: "direct", Mode: "none", JobKind: "hold"}
	op := func(o string, g, v int) { in.Ops = append(in.Ops, c14Op{Op: o, G: g, V: v}) }
	type job struct{ g, v int }
	var running, queued []job
	next := 1
	submit := func(g int) {
		j := job{g, next}
		next++
		op("submit", g, j.v)
		if len(running) < in.Workers {
			running = append(running, j)
		} else {
			queued = append(queued, j)
		}
	}
	finish := func(k int) job {
		j := running[k]
		running = append(running[:k], running[k+1:]...)
		op("finish", j.g, j.v)
		if len(queued) > 0 {
			running = append(running, queued[0])
			queued = queued[1:]
		}
		return j
	}
	if i%2 == 0 {
		in.Workers = []int{1, 2, 4, 8, 64}[r.Intn(5)]
		groups := r.Range(65, 80+60*scale)
		left := map[int]int{}
		watchFirst := r.Chance(70)
		for g := 1; g <= groups; g++ {
			n := 1
			if r.Chance(20) {
				n = 2
			}
			if watchFirst && r.Chance(85) {
				op("watch", g, 0)
			}
			for k := 0; k < n; k++ {
				submit(g)
			}
			left[g] = n
		}
		if !watchFirst {
			for g := 1; g <= groups; g++ {
				if r.Chance(85) {
					op("watch", g, 0)
				}
			}
		}
		for len(running) > 0 {
			j := finish(r.Intn(len(running)))
			left[j.g]--
			if r.Chance(80) {
				op("poll-held", j.g, 0)
				op("results", j.g, 0)
			}
			if left[j.g] == 0 && r.Chance(85) {
				op("remove", j.g, 0) // the finished group leaves while most others are waiting
			}
			if r.Chance(10) {
				op("poll-held", 1+r.Intn(groups), 0) // a waiting (or finished) reader looks at its channel
			}
		}
		for g := 1; g <= groups; g++ {
			op("poll-held", g, 0)
			op("poll", g, 0)
			op("results", g, 0)
		}
	} else {
		in.Workers = []int{1, 2, 8, 64}[r.Intn(4)]
		groups := []int{1, 1, 2}[r.Intn(3)]
		per := []int{257, 300, 512, 513, r.Range(257, 700), r.Range(700, 700+600*scale)}[r.Intn(6)]
		for g := 1; g <= groups; g++ {
			op("watch", g, 0)
		}
		for k := 0; k < per; k++ {
			for g := 1; g <= groups; g++ {
				submit(g)
			}
			// (some results are collected early, in small batches: the long list is what remains)
			if r.Chance(2) && len(running) > 0 {
				j := finish(0)
				op("poll-held", j.g, 0)
				op("results", j.g, 0)
			}
		}
		for len(running) > 0 {
			finish(r.Intn(len(running)))
		}
		for g := 1; g <= groups; g++ {
			op("poll-held", g, 0)
			op("results", g, 0)
			op("poll-held", g, 0)
			op("results", g, 0)
		}
	}
	return in
}
