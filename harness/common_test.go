package harness

import (
	"bufio"
	"context"
	"encoding/hex"
	"encoding/json"
	"fmt"
	"io"
	"log"
	"math/big"
	"os"
	"os/exec"
	"path/filepath"
	"sort"
	"strconv"
	"sync"
	"sync/atomic"
	"testing"
	"time"

	"github.com/smartcontractkit/libocr/commontypes"
	"github.com/smartcontractkit/libocr/offchainreporting2plus/ocr3types"
	ocr2plustypes "github.com/smartcontractkit/libocr/offchainreporting2plus/types"

	"github.com/smartcontractkit/chainlink-automation/pkg/v3/plugin"
	"github.com/smartcontractkit/chainlink-automation/pkg/v3/runner"
	"github.com/smartcontractkit/chainlink-automation/pkg/v3/types"
	simutil "github.com/smartcontractkit/chainlink-automation/tools/simulator/util"
	ocr2keepers "github.com/smartcontractkit/chainlink-common/pkg/types/automation"
)

// ---------------------------------------------------------------- PRNG

// Rng is splitmix64; every random choice of a run derives from VERIF_SEED.
type Rng struct{ s uint64 }

func NewRng(seed uint64) *Rng {
	// hash the seed first: consecutive seeds must not give shifted copies of one stream
	z := seed + 0x9E3779B97F4A7C15
	z = (z ^ (z >> 30)) * 0xBF58476D1CE4E5B9
	z = (z ^ (z >> 27)) * 0x94D049BB133111EB
	z ^= z >> 31
	return &Rng{s: z ^ 0x5851F42D4C957F2D}
}

func (r *Rng) U64() uint64 {
	r.s += 0x9E3779B97F4A7C15
	z := r.s
	z = (z ^ (z >> 30)) * 0xBF58476D1CE4E5B9
	z = (z ^ (z >> 27)) * 0x94D049BB133111EB
	return z ^ (z >> 31)
}
func (r *Rng) Intn(n int) int {
	if n <= 0 {
		return 0
	}
	return int(r.U64() % uint64(n))
}
func (r *Rng) Range(lo, hi int) int { return lo + r.Intn(hi-lo+1) } // inclusive
func (r *Rng) Bool() bool           { return r.U64()&1 == 1 }
func (r *Rng) Chance(p int) bool    { return r.Intn(100) < p } // p percent
func (r *Rng) Fork() *Rng           { return NewRng(r.U64()) }
func (r *Rng) Bytes(n int) []byte {
	b := make([]byte, n)
	for i := range b {
		b[i] = byte(r.U64())
	}
	return b
}
func (r *Rng) Perm(n int) []int {
	p := make([]int, n)
	for i := range p {
		p[i] = i
	}
	for i := n - 1; i > 0; i-- {
		j := r.Intn(i + 1)
		p[i], p[j] = p[j], p[i]
	}
	return p
}

// ---------------------------------------------------------------- environment

func envInt(k string, d int) int {
	if v := os.Getenv(k); v != "" {
		if n, err := strconv.Atoi(v); err == nil {
			return n
		}
	}
	return d
}

func seed() uint64    { return uint64(envInt("VERIF_SEED", 1)) }
func thorough() bool  { return os.Getenv("VERIF_TIER") == "thorough" }
func tierN(q, t int) int {
	n := q
	if thorough() {
		n = t
	}
	if s := envInt("VERIF_SCALE", 0); s > 0 {
		n = n * s / 100
		if n < 1 {
			n = 1
		}
	}
	return n
}

// ---------------------------------------------------------------- case output

type caseLine struct {
	Prop  string `json:"prop"`
	Case  int    `json:"case"`
	Src   string `json:"src"` // "corpus:<file>", "replay", "gen"
	Input any    `json:"input"`
	Impl  any    `json:"impl"`
}

type Emitter struct {
	mu   sync.Mutex
	w    *bufio.Writer
	f    *os.File
	n    int
	prop string
	Dist map[string]int // input distribution / branch hits, printed into the evidence
}

func NewEmitter(t testing.TB, prop string) *Emitter {
	path := os.Getenv("VERIF_OUT")
	if path == "" {
		path = filepath.Join(os.TempDir(), "verif-"+prop+".jsonl")
	}
	f, err := os.Create(path)
	if err != nil {
		t.Fatalf("create %s: %v", path, err)
	}
	return &Emitter{w: bufio.NewWriterSize(f, 1<<20), f: f, prop: prop, Dist: map[string]int{}}
}

func (e *Emitter) Emit(src string, input, impl any) {
	e.mu.Lock()
	defer e.mu.Unlock()
	b, err := json.Marshal(caseLine{Prop: e.prop, Case: e.n, Src: src, Input: input, Impl: impl})
	if err != nil {
		panic(err)
	}
	e.n++
	e.w.Write(b)
	e.w.WriteByte('\n')
}

func (e *Emitter) Hit(k string) {
	e.mu.Lock()
	e.Dist[k]++
	e.mu.Unlock()
}
func (e *Emitter) HitN(k string, n int) {
	e.mu.Lock()
	e.Dist[k] += n
	e.mu.Unlock()
}

func (e *Emitter) Close() {
	e.w.Flush()
	e.f.Close()
	if p := os.Getenv("VERIF_DIST"); p != "" {
		b, _ := json.Marshal(e.Dist)
		os.WriteFile(p, b, 0o644)
	}
}

// corpusInputs returns the raw "input" objects of /verif/corpus/<prop>/*.json
// (run first), or only the replay file when VERIF_REPLAY is set.
func corpusInputs(t testing.TB, prop string) (names []string, raws []json.RawMessage, replayOnly bool) {
	if p := os.Getenv("VERIF_REPLAY"); p != "" {
		b, err := os.ReadFile(p)
		if err != nil {
			t.Fatalf("replay: %v", err)
		}
		var c struct {
			Input json.RawMessage `json:"input"`
		}
		if err := json.Unmarshal(b, &c); err != nil || len(c.Input) == 0 {
			t.Fatalf("replay file has no input: %v", err)
		}
		return []string{"replay"}, []json.RawMessage{c.Input}, true
	}
	dir := os.Getenv("VERIF_CORPUS")
	if dir == "" {
		dir = "/verif/corpus"
	}
	files, _ := filepath.Glob(filepath.Join(dir, prop, "*.json"))
	sort.Strings(files)
	for _, f := range files {
		b, err := os.ReadFile(f)
		if err != nil {
			continue
		}
		var c struct {
			Input json.RawMessage `json:"input"`
		}
		if err := json.Unmarshal(b, &c); err != nil || len(c.Input) == 0 {
			t.Logf("corpus file %s skipped: %v", f, err)
			continue
		}
		names = append(names, "corpus:"+filepath.Base(f))
		raws = append(raws, c.Input)
	}
	return names, raws, false
}

// ---------------------------------------------------------------- canonical JSON forms

type JExt struct {
	Tx  string `json:"tx"`
	Idx uint32 `json:"idx"`
	BH  string `json:"bh"`
	BN  uint64 `json:"bn"`
}
type JTrig struct {
	BN  uint64 `json:"bn"`
	BH  string `json:"bh"`
	Ext *JExt  `json:"ext"`
}
type JCR struct {
	PES       uint8   `json:"pes"`
	Retryable bool    `json:"retryable"`
	Eligible  bool    `json:"eligible"`
	Reason    uint8   `json:"reason"`
	UID       string  `json:"uid"`
	Trig      JTrig   `json:"trig"`
	WID       string  `json:"wid"`
	Gas       uint64  `json:"gas"`
	PD        string  `json:"pd"`
	FGW       *string `json:"fgw"`
	LN        *string `json:"ln"`
}
type JProp struct {
	UID  string `json:"uid"`
	Trig JTrig  `json:"trig"`
	WID  string `json:"wid"`
}
type JBK struct {
	N uint64 `json:"n"`
	H string `json:"h"`
}
type JObs struct {
	Perf  []JCR   `json:"perf"`
	Props []JProp `json:"props"`
	Hist  []JBK   `json:"hist"`
}
type JOutcome struct {
	Agreed   []JCR     `json:"agreed"`
	Surfaced [][]JProp `json:"surfaced"`
}

func hx(b []byte) string { return hex.EncodeToString(b) }
func unhx(s string) []byte {
	b, err := hex.DecodeString(s)
	if err != nil {
		panic("bad hex " + s)
	}
	return b
}
func b32(s string) (out [32]byte) { copy(out[:], unhx(s)); return }

func toJTrig(t ocr2keepers.Trigger) JTrig {
	j := JTrig{BN: uint64(t.BlockNumber), BH: hx(t.BlockHash[:])}
	if e := t.LogTriggerExtension; e != nil {
		j.Ext = &JExt{Tx: hx(e.TxHash[:]), Idx: e.Index, BH: hx(e.BlockHash[:]), BN: uint64(e.BlockNumber)}
	}
	return j
}
func fromJTrig(j JTrig) ocr2keepers.Trigger {
	t := ocr2keepers.Trigger{BlockNumber: ocr2keepers.BlockNumber(j.BN), BlockHash: b32(j.BH)}
	if j.Ext != nil {
		t.LogTriggerExtension = &ocr2keepers.LogTriggerExtension{TxHash: b32(j.Ext.Tx), Index: j.Ext.Idx, BlockHash: b32(j.Ext.BH), BlockNumber: ocr2keepers.BlockNumber(j.Ext.BN)}
	}
	return t
}
func bigStr(b *big.Int) *string {
	if b == nil {
		return nil
	}
	s := b.String()
	return &s
}
func strBig(s *string) *big.Int {
	if s == nil {
		return nil
	}
	b, ok := new(big.Int).SetString(*s, 10)
	if !ok {
		panic("bad big " + *s)
	}
	return b
}
func toJCR(r ocr2keepers.CheckResult) JCR {
	return JCR{PES: r.PipelineExecutionState, Retryable: r.Retryable, Eligible: r.Eligible, Reason: r.IneligibilityReason,
		UID: hx(r.UpkeepID[:]), Trig: toJTrig(r.Trigger), WID: r.WorkID, Gas: r.GasAllocated, PD: hx(r.PerformData),
		FGW: bigStr(r.FastGasWei), LN: bigStr(r.LinkNative)}
}
func fromJCR(j JCR) ocr2keepers.CheckResult {
	return ocr2keepers.CheckResult{PipelineExecutionState: j.PES, Retryable: j.Retryable, Eligible: j.Eligible, IneligibilityReason: j.Reason,
		UpkeepID: b32(j.UID), Trigger: fromJTrig(j.Trig), WorkID: j.WID, GasAllocated: j.Gas, PerformData: unhx(j.PD),
		FastGasWei: strBig(j.FGW), LinkNative: strBig(j.LN)}
}
func toJCRs(rs []ocr2keepers.CheckResult) []JCR {
	out := make([]JCR, 0, len(rs))
	for _, r := range rs {
		out = append(out, toJCR(r))
	}
	return out
}
func fromJCRs(js []JCR) []ocr2keepers.CheckResult {
	out := make([]ocr2keepers.CheckResult, 0, len(js))
	for _, j := range js {
		out = append(out, fromJCR(j))
	}
	return out
}
func toJProp(p ocr2keepers.CoordinatedBlockProposal) JProp {
	return JProp{UID: hx(p.UpkeepID[:]), Trig: toJTrig(p.Trigger), WID: p.WorkID}
}
func fromJProp(j JProp) ocr2keepers.CoordinatedBlockProposal {
	return ocr2keepers.CoordinatedBlockProposal{UpkeepID: b32(j.UID), Trigger: fromJTrig(j.Trig), WorkID: j.WID}
}
func toJProps(ps []ocr2keepers.CoordinatedBlockProposal) []JProp {
	out := make([]JProp, 0, len(ps))
	for _, p := range ps {
		out = append(out, toJProp(p))
	}
	return out
}
func fromJProps(js []JProp) []ocr2keepers.CoordinatedBlockProposal {
	out := make([]ocr2keepers.CoordinatedBlockProposal, 0, len(js))
	for _, j := range js {
		out = append(out, fromJProp(j))
	}
	return out
}
func toJBK(b ocr2keepers.BlockKey) JBK   { return JBK{N: uint64(b.Number), H: hx(b.Hash[:])} }
func fromJBK(j JBK) ocr2keepers.BlockKey { return ocr2keepers.BlockKey{Number: ocr2keepers.BlockNumber(j.N), Hash: b32(j.H)} }
func toJBKs(bs []ocr2keepers.BlockKey) []JBK {
	out := make([]JBK, 0, len(bs))
	for _, b := range bs {
		out = append(out, toJBK(b))
	}
	return out
}
func fromJBKs(js []JBK) []ocr2keepers.BlockKey {
	out := make([]ocr2keepers.BlockKey, 0, len(js))
	for _, j := range js {
		out = append(out, fromJBK(j))
	}
	return out
}

// ---------------------------------------------------------------- domain generators

var (
	utg = types.UpkeepTypeGetter(simutil.GetUpkeepType)
	wg  = types.WorkIDGenerator(simutil.UpkeepWorkID)
)

func genUpkeepID(r *Rng, logType bool) ocr2keepers.UpkeepIdentifier {
	t := uint8(0)
	if logType {
		t = 1
	}
	return ocr2keepers.UpkeepIdentifier(simutil.NewUpkeepID(r.Bytes(8), t))
}

// genUpkeepIDOther: an upkeep id whose type byte is neither "condition" nor "log" (the type getter returns the raw byte)
func genUpkeepIDOther(r *Rng) ocr2keepers.UpkeepIdentifier {
	return ocr2keepers.UpkeepIdentifier(simutil.NewUpkeepID(r.Bytes(8), uint8(r.Range(2, 9))))
}

func genHash(r *Rng) (h [32]byte) { copy(h[:], r.Bytes(32)); return }

// genResult builds a valid eligible check result for the given upkeep.
func genResult(r *Rng, uid ocr2keepers.UpkeepIdentifier, block uint64) ocr2keepers.CheckResult {
	trig := ocr2keepers.Trigger{BlockNumber: ocr2keepers.BlockNumber(block), BlockHash: genHash(r)}
	if utg(uid) == types.LogTrigger {
		trig.LogTriggerExtension = &ocr2keepers.LogTriggerExtension{TxHash: genHash(r), Index: uint32(r.Intn(5)), BlockHash: genHash(r), BlockNumber: ocr2keepers.BlockNumber(block - uint64(r.Intn(3)))}
	}
	return ocr2keepers.CheckResult{
		Eligible: true, UpkeepID: uid, Trigger: trig, WorkID: wg(uid, trig),
		GasAllocated: uint64(r.Range(1, 5_000_000)), PerformData: r.Bytes(r.Intn(40)),
		FastGasWei: new(big.Int).SetUint64(r.U64() % 1e12), LinkNative: new(big.Int).SetUint64(r.U64() % 1e18),
	}
}

// ---------------------------------------------------------------- fakes for the plugin factory

type fakeLogProvider struct {
	mu       sync.Mutex
	payloads []ocr2keepers.UpkeepPayload
	calls    int
	panicOn  func() bool
}

func (f *fakeLogProvider) GetLatestPayloads(context.Context) ([]ocr2keepers.UpkeepPayload, error) {
	f.mu.Lock()
	defer f.mu.Unlock()
	f.calls++
	if f.panicOn != nil && f.panicOn() {
		panic("fakeLogProvider: injected panic")
	}
	p := f.payloads
	f.payloads = nil
	return p, nil
}
func (f *fakeLogProvider) SetConfig(ocr2keepers.LogEventProviderConfig) {}
func (f *fakeLogProvider) Start(context.Context) error                   { return nil }
func (f *fakeLogProvider) Close() error                                  { return nil }

type fakeEvents struct {
	mu     sync.Mutex
	events []ocr2keepers.TransmitEvent
	calls  int
}

func (f *fakeEvents) GetLatestEvents(context.Context) ([]ocr2keepers.TransmitEvent, error) {
	f.mu.Lock()
	defer f.mu.Unlock()
	f.calls++
	return append([]ocr2keepers.TransmitEvent(nil), f.events...), nil
}
func (f *fakeEvents) Set(ev ...ocr2keepers.TransmitEvent) {
	f.mu.Lock()
	f.events = append([]ocr2keepers.TransmitEvent(nil), ev...)
	f.mu.Unlock()
}

type fakeBlocks struct {
	mu   sync.Mutex
	subs map[int]chan ocr2keepers.BlockHistory
	next int
}

func (f *fakeBlocks) Subscribe() (int, chan ocr2keepers.BlockHistory, error) {
	f.mu.Lock()
	defer f.mu.Unlock()
	if f.subs == nil {
		f.subs = map[int]chan ocr2keepers.BlockHistory{}
	}
	f.next++
	ch := make(chan ocr2keepers.BlockHistory, 100)
	f.subs[f.next] = ch
	return f.next, ch, nil
}
func (f *fakeBlocks) Unsubscribe(id int) error {
	f.mu.Lock()
	defer f.mu.Unlock()
	if ch, ok := f.subs[id]; ok {
		close(ch)
		delete(f.subs, id)
	}
	return nil
}
func (f *fakeBlocks) Start(context.Context) error { return nil }
func (f *fakeBlocks) Close() error                { return nil }
func (f *fakeBlocks) Publish(h ocr2keepers.BlockHistory) {
	f.mu.Lock()
	defer f.mu.Unlock()
	for _, ch := range f.subs {
		select {
		case ch <- h:
		default:
		}
	}
}
func (f *fakeBlocks) NumSubs() int {
	f.mu.Lock()
	defer f.mu.Unlock()
	return len(f.subs)
}

type fakeRecoverable struct {
	mu       sync.Mutex
	payloads []ocr2keepers.UpkeepPayload
	calls    int
}

func (f *fakeRecoverable) GetRecoveryProposals(context.Context) ([]ocr2keepers.UpkeepPayload, error) {
	f.mu.Lock()
	defer f.mu.Unlock()
	f.calls++
	p := f.payloads
	f.payloads = nil
	return p, nil
}

type fakeBuilder struct{}

func (fakeBuilder) BuildPayloads(_ context.Context, ps ...ocr2keepers.CoordinatedBlockProposal) ([]ocr2keepers.UpkeepPayload, error) {
	out := make([]ocr2keepers.UpkeepPayload, len(ps))
	for i, p := range ps {
		out[i] = ocr2keepers.UpkeepPayload{UpkeepID: p.UpkeepID, Trigger: p.Trigger, WorkID: p.WorkID}
	}
	return out, nil
}

type fakeGetter struct {
	mu      sync.Mutex
	upkeeps []ocr2keepers.UpkeepPayload
	calls   int
}

func (f *fakeGetter) GetActiveUpkeeps(context.Context) ([]ocr2keepers.UpkeepPayload, error) {
	f.mu.Lock()
	defer f.mu.Unlock()
	f.calls++
	return append([]ocr2keepers.UpkeepPayload(nil), f.upkeeps...), nil
}

// fakeRunnable answers CheckUpkeeps from a programmable function and logs calls.
type fakeRunnable struct {
	mu    sync.Mutex
	fn    func(ctx context.Context, ps []ocr2keepers.UpkeepPayload) ([]ocr2keepers.CheckResult, error)
	calls [][]ocr2keepers.UpkeepPayload
}

func (f *fakeRunnable) CheckUpkeeps(ctx context.Context, ps ...ocr2keepers.UpkeepPayload) ([]ocr2keepers.CheckResult, error) {
	f.mu.Lock()
	f.calls = append(f.calls, append([]ocr2keepers.UpkeepPayload(nil), ps...))
	fn := f.fn
	f.mu.Unlock()
	if fn == nil {
		return nil, nil
	}
	return fn(ctx, ps)
}

// recEncoder records what Reports hands to the encoder; the bytes are the
// simulator's JSON encoding so that Extract can invert it.
type recEncoder struct {
	mu     sync.Mutex
	calls  [][]ocr2keepers.CheckResult
	failAt int // the failAt-th Encode call since the last Take fails (0 = none)
	n      int
}

// FailAt arms the encoder: its k-th call from now on returns an error (the call is still recorded).
func (e *recEncoder) FailAt(k int) {
	e.mu.Lock()
	e.failAt, e.n = k, 0
	e.mu.Unlock()
}

func (e *recEncoder) Encode(rs ...ocr2keepers.CheckResult) ([]byte, error) {
	e.mu.Lock()
	e.calls = append(e.calls, append([]ocr2keepers.CheckResult(nil), rs...))
	e.n++
	fail := e.failAt > 0 && e.n == e.failAt
	e.mu.Unlock()
	if fail {
		return nil, fmt.Errorf("report encoder failed on purpose (call %d)", e.failAt)
	}
	return json.Marshal(rs)
}
func (e *recEncoder) Extract(b []byte) ([]ocr2keepers.ReportedUpkeep, error) {
	var rs []ocr2keepers.CheckResult
	if err := json.Unmarshal(b, &rs); err != nil {
		return nil, err
	}
	out := make([]ocr2keepers.ReportedUpkeep, len(rs))
	for i, r := range rs {
		out[i] = ocr2keepers.ReportedUpkeep{UpkeepID: r.UpkeepID, Trigger: r.Trigger, WorkID: r.WorkID}
	}
	return out, nil
}
func (e *recEncoder) Take() [][]ocr2keepers.CheckResult {
	e.mu.Lock()
	defer e.mu.Unlock()
	c := e.calls
	e.calls = nil
	e.failAt, e.n = 0, 0
	return c
}

type fakeStateUpdater struct {
	mu     sync.Mutex
	states []struct {
		WID   string
		State ocr2keepers.UpkeepState
	}
}

func (f *fakeStateUpdater) SetUpkeepState(_ context.Context, r ocr2keepers.CheckResult, s ocr2keepers.UpkeepState) error {
	f.mu.Lock()
	f.states = append(f.states, struct {
		WID   string
		State ocr2keepers.UpkeepState
	}{r.WorkID, s})
	f.mu.Unlock()
	return nil
}

// Node bundles one plugin instance built by the public factory with its fakes.
type Node struct {
	Plugin  ocr3types.ReportingPlugin[plugin.AutomationReportInfo]
	Info    ocr3types.ReportingPluginInfo
	Logs    *fakeLogProvider
	Events  *fakeEvents
	Blocks  *fakeBlocks
	Recov   *fakeRecoverable
	Getter  *fakeGetter
	Run     *fakeRunnable
	Enc     *recEncoder
	States  *fakeStateUpdater
	Digest  ocr2plustypes.ConfigDigest
	N, F    int
	closed  bool
}

type NodeOpts struct {
	N, F           int
	OffchainConfig []byte
	Digest         [32]byte
	OracleID       int
	// Decoy, when set, makes the factory build (and close) another instance with these options first: libocr
	// calls NewReportingPlugin on ONE factory for every config, so nothing may carry over from instance to instance
	Decoy *NodeOpts
	// AfterDecoy, when set, runs after the decoy instance has been closed and before the real one is created
	AfterDecoy func()
}

var quietLogger = log.New(io.Discard, "", 0)

// NewNode builds a plugin through plugin.NewReportingPluginFactory — the same
// path the node operator's code takes (config decode, defaults, services).
func NewNode(t testing.TB, o NodeOpts) *Node { return NewNodeWith(t, o, nil) }

// NewNodeWith is NewNode with a caller-supplied transmit event provider.
func NewNodeWith(t testing.TB, o NodeOpts, events types.TransmitEventProvider) *Node {
	n := &Node{Logs: &fakeLogProvider{}, Events: &fakeEvents{}, Blocks: &fakeBlocks{}, Recov: &fakeRecoverable{},
		Getter: &fakeGetter{}, Run: &fakeRunnable{}, Enc: &recEncoder{}, States: &fakeStateUpdater{}, N: o.N, F: o.F}
	n.Digest = ocr2plustypes.ConfigDigest(o.Digest)
	if events == nil {
		events = n.Events
	}
	fac := plugin.NewReportingPluginFactory(n.Logs, events, n.Blocks, n.Recov, fakeBuilder{}, n.Getter, n.Run,
		runner.RunnerConfig{Workers: 4, WorkerQueueLength: 100, CacheExpire: 20 * time.Minute, CacheClean: 30 * time.Second},
		n.Enc, utg, wg, n.States, quietLogger)
	if d := o.Decoy; d != nil {
		doc := d.OffchainConfig
		if doc == nil {
			doc = []byte(`{}`)
		}
		dp, _, err := fac.NewReportingPlugin(context.Background(), ocr3types.ReportingPluginConfig{
			ConfigDigest: ocr2plustypes.ConfigDigest(d.Digest), OracleID: commontypes.OracleID(d.OracleID), N: d.N, F: d.F, OffchainConfig: doc,
		})
		if err == nil {
			time.Sleep(1500 * time.Millisecond) // virtual: every service of the decoy reaches its running state
			dp.Close()
			time.Sleep(11 * time.Second)
		}
		if o.AfterDecoy != nil {
			o.AfterDecoy()
		}
	}
	oc := o.OffchainConfig
	if oc == nil {
		oc = []byte(`{}`)
	}
	// libocr creates an instance under an initialisation context (bounded by MaxDurationInitialization) that ENDS
	// while the instance lives on: nothing of the instance may hang on that context
	ictx, icancel := context.WithCancel(context.Background())
	p, info, err := fac.NewReportingPlugin(ictx, ocr3types.ReportingPluginConfig{
		ConfigDigest: n.Digest, OracleID: commontypes.OracleID(o.OracleID), N: o.N, F: o.F, OffchainConfig: oc,
	})
	icancel()
	if err != nil {
		t.Fatalf("NewReportingPlugin: %v", err)
	}
	n.Plugin, n.Info = p, info
	return n
}

func (n *Node) Close() error {
	if n.closed {
		return nil
	}
	n.closed = true
	return n.Plugin.Close()
}

func must[T any](v T, err error) T {
	if err != nil {
		panic(fmt.Sprintf("unexpected error: %v", err))
	}
	return v
}

type pluginInfo = plugin.AutomationReportInfo


var coverSeq atomic.Int64

// coverChild makes a child process of the harness write a coverage profile of its own when the coverage measurement
// (bin/coverage) asks for it; it does nothing in the checks.
func coverChild(cmd *exec.Cmd) {
	if d := os.Getenv("VERIF_COVERDIR"); d != "" {
		cmd.Args = append(cmd.Args, fmt.Sprintf("-test.coverprofile=%s/child-%d-%d.prof", d, os.Getpid(), coverSeq.Add(1)))
	}
}

