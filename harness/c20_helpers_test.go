package harness

import (
	"bytes"
	"encoding/json"
	"fmt"
	"io"
	"math/big"
	"reflect"
	"strconv"
	"strings"

	"github.com/smartcontractkit/chainlink-automation/tools/simulator/config"
)

// Canonical, JSON-round-trippable form of a config.SimulationPlan used by C20:
// every struct is a list of leaves in Go field order (embedded structs
// flattened, as encoding/json does).  The field lists (key, kind, omitempty)
// are obtained by reflection over the repository's types and sent to the
// driver, which compares them with the schema the Lean model was written for.

type c20Leaf struct {
	K string `json:"k"` // "null" | "int" | "str" | "dur" | "flt"
	V string `json:"v"` // decimal (int, dur: nanoseconds), text (str), shortest float literal (flt)
}

type c20Field struct {
	Key  string `json:"key"`
	Kind string `json:"kind"` // "int" | "big" (*big.Int) | "str" | "dur" | "flt"
	Omit bool   `json:"omit"` // omitempty
}

type c20Schema struct {
	Node    []c20Field `json:"node"`
	Network []c20Field `json:"p2pNetwork"`
	RPC     []c20Field `json:"rpc"`
	Blocks  []c20Field `json:"blocks"`
	Config  []c20Field `json:"ocr3config"`
	Gen     []c20Field `json:"generateUpkeeps"`
	Logs    []c20Field `json:"logTrigger"`
	Top     []string   `json:"top"` // top-level keys of SimulationPlan in order (events excluded)
}

type c20Canon struct {
	Node    []c20Leaf   `json:"node"`
	Network []c20Leaf   `json:"p2pNetwork"`
	RPC     []c20Leaf   `json:"rpc"`
	Blocks  []c20Leaf   `json:"blocks"`
	Config  [][]c20Leaf `json:"config"`
	Gen     [][]c20Leaf `json:"gen"`
	Logs    [][]c20Leaf `json:"logs"`
}

var (
	c20BigPtr   = reflect.TypeOf((*big.Int)(nil))
	c20Duration = reflect.TypeOf(config.Duration(0))
)

// c20Fields flattens a struct type the way encoding/json sees it.
func c20Fields(t reflect.Type) []c20Field {
	var out []c20Field
	for i := 0; i < t.NumField(); i++ {
		f := t.Field(i)
		tag := f.Tag.Get("json")
		if tag == "-" {
			continue
		}
		name, opts, _ := strings.Cut(tag, ",")
		if f.Anonymous && name == "" && f.Type.Kind() == reflect.Struct {
			out = append(out, c20Fields(f.Type)...)
			continue
		}
		if name == "" {
			name = f.Name
		}
		fd := c20Field{Key: name, Omit: strings.Contains(opts, "omitempty")}
		switch {
		case f.Type == c20BigPtr:
			fd.Kind = "big"
		case f.Type == c20Duration:
			fd.Kind = "dur"
		case f.Type.Kind() == reflect.String:
			fd.Kind = "str"
		case f.Type.Kind() == reflect.Float64:
			fd.Kind = "flt"
		case f.Type.Kind() == reflect.Int, f.Type.Kind() == reflect.Int64, f.Type.Kind() == reflect.Uint64:
			fd.Kind = "int"
		case f.Type.Kind() == reflect.Struct:
			fd.Kind = "obj"
		default:
			fd.Kind = "other:" + f.Type.String()
		}
		out = append(out, fd)
	}
	return out
}

func c20ReflectSchema() c20Schema {
	s := c20Schema{
		Node:    c20Fields(reflect.TypeOf(config.Node{})),
		Network: c20Fields(reflect.TypeOf(config.Network{})),
		RPC:     c20Fields(reflect.TypeOf(config.RPC{})),
		Blocks:  c20Fields(reflect.TypeOf(config.Blocks{})),
		Config:  c20Fields(reflect.TypeOf(config.OCR3ConfigEvent{})),
		Gen:     c20Fields(reflect.TypeOf(config.GenerateUpkeepEvent{})),
		Logs:    c20Fields(reflect.TypeOf(config.LogTriggerEvent{})),
	}
	for _, f := range c20Fields(reflect.TypeOf(config.SimulationPlan{})) {
		s.Top = append(s.Top, f.Key)
	}
	return s
}

// c20Leaves lists the leaf values of a struct value in c20Fields order.
func c20Leaves(v reflect.Value) []c20Leaf {
	out := []c20Leaf{}
	t := v.Type()
	for i := 0; i < t.NumField(); i++ {
		f := t.Field(i)
		tag := f.Tag.Get("json")
		if tag == "-" {
			continue
		}
		name, _, _ := strings.Cut(tag, ",")
		fv := v.Field(i)
		if f.Anonymous && name == "" && f.Type.Kind() == reflect.Struct {
			out = append(out, c20Leaves(fv)...)
			continue
		}
		switch {
		case f.Type == c20BigPtr:
			b := fv.Interface().(*big.Int)
			if b == nil {
				out = append(out, c20Leaf{K: "null"})
			} else {
				out = append(out, c20Leaf{K: "int", V: b.String()})
			}
		case f.Type == c20Duration:
			out = append(out, c20Leaf{K: "dur", V: strconv.FormatInt(fv.Int(), 10)})
		case f.Type.Kind() == reflect.String:
			out = append(out, c20Leaf{K: "str", V: fv.String()})
		case f.Type.Kind() == reflect.Float64:
			out = append(out, c20Leaf{K: "flt", V: strconv.FormatFloat(fv.Float(), 'g', -1, 64)})
		case f.Type.Kind() == reflect.Uint64:
			out = append(out, c20Leaf{K: "int", V: strconv.FormatUint(fv.Uint(), 10)})
		case f.Type.Kind() == reflect.Int, f.Type.Kind() == reflect.Int64:
			out = append(out, c20Leaf{K: "int", V: strconv.FormatInt(fv.Int(), 10)})
		default:
			out = append(out, c20Leaf{K: "other"})
		}
	}
	return out
}

// c20SetLeaves is the inverse of c20Leaves (v must be addressable).
func c20SetLeaves(v reflect.Value, ls []c20Leaf) ([]c20Leaf, error) {
	t := v.Type()
	for i := 0; i < t.NumField(); i++ {
		f := t.Field(i)
		tag := f.Tag.Get("json")
		if tag == "-" {
			continue
		}
		name, _, _ := strings.Cut(tag, ",")
		fv := v.Field(i)
		if f.Anonymous && name == "" && f.Type.Kind() == reflect.Struct {
			var err error
			if ls, err = c20SetLeaves(fv, ls); err != nil {
				return nil, err
			}
			continue
		}
		if len(ls) == 0 {
			return nil, fmt.Errorf("too few leaves for %s", t)
		}
		l := ls[0]
		ls = ls[1:]
		switch {
		case f.Type == c20BigPtr:
			if l.K == "null" {
				fv.Set(reflect.Zero(f.Type))
			} else {
				b, ok := new(big.Int).SetString(l.V, 10)
				if !ok {
					return nil, fmt.Errorf("bad big %q", l.V)
				}
				fv.Set(reflect.ValueOf(b))
			}
		case f.Type == c20Duration, f.Type.Kind() == reflect.Int, f.Type.Kind() == reflect.Int64:
			n, err := strconv.ParseInt(l.V, 10, 64)
			if err != nil {
				return nil, err
			}
			fv.SetInt(n)
		case f.Type.Kind() == reflect.Uint64:
			n, err := strconv.ParseUint(l.V, 10, 64)
			if err != nil {
				return nil, err
			}
			fv.SetUint(n)
		case f.Type.Kind() == reflect.String:
			fv.SetString(l.V)
		case f.Type.Kind() == reflect.Float64:
			x, err := strconv.ParseFloat(l.V, 64)
			if err != nil {
				return nil, err
			}
			fv.SetFloat(x)
		}
	}
	return ls, nil
}

func c20PlanToCanon(p config.SimulationPlan) c20Canon {
	c := c20Canon{
		Node:    c20Leaves(reflect.ValueOf(p.Node)),
		Network: c20Leaves(reflect.ValueOf(p.Network)),
		RPC:     c20Leaves(reflect.ValueOf(p.RPC)),
		Blocks:  c20Leaves(reflect.ValueOf(p.Blocks)),
		Config:  [][]c20Leaf{}, Gen: [][]c20Leaf{}, Logs: [][]c20Leaf{},
	}
	for _, e := range p.ConfigEvents {
		c.Config = append(c.Config, c20Leaves(reflect.ValueOf(e)))
	}
	for _, e := range p.GenerateUpkeeps {
		c.Gen = append(c.Gen, c20Leaves(reflect.ValueOf(e)))
	}
	for _, e := range p.LogEvents {
		c.Logs = append(c.Logs, c20Leaves(reflect.ValueOf(e)))
	}
	return c
}

func c20CanonToPlan(c c20Canon) (config.SimulationPlan, error) {
	var p config.SimulationPlan
	set := func(dst any, ls []c20Leaf) error {
		rest, err := c20SetLeaves(reflect.ValueOf(dst).Elem(), ls)
		if err == nil && len(rest) != 0 {
			err = fmt.Errorf("too many leaves for %T", dst)
		}
		return err
	}
	if err := set(&p.Node, c.Node); err != nil {
		return p, err
	}
	if err := set(&p.Network, c.Network); err != nil {
		return p, err
	}
	if err := set(&p.RPC, c.RPC); err != nil {
		return p, err
	}
	if err := set(&p.Blocks, c.Blocks); err != nil {
		return p, err
	}
	for _, ls := range c.Config {
		var e config.OCR3ConfigEvent
		if err := set(&e, ls); err != nil {
			return p, err
		}
		p.ConfigEvents = append(p.ConfigEvents, e)
	}
	for _, ls := range c.Gen {
		var e config.GenerateUpkeepEvent
		if err := set(&e, ls); err != nil {
			return p, err
		}
		p.GenerateUpkeeps = append(p.GenerateUpkeeps, e)
	}
	for _, ls := range c.Logs {
		var e config.LogTriggerEvent
		if err := set(&e, ls); err != nil {
			return p, err
		}
		p.LogEvents = append(p.LogEvents, e)
	}
	return p, nil
}

func c20CanonEqual(a, b c20Canon) bool {
	x, _ := json.Marshal(a)
	y, _ := json.Marshal(b)
	return bytes.Equal(x, y)
}

// c20Skeleton reads real plan bytes with a token stream (key order kept):
// top-level keys in order and, per element of "events", null or its keys in order.
type c20Skel struct {
	Top    []string   `json:"top"`
	Events [][]string `json:"events"` // nil entry = JSON null
	Bad    string     `json:"bad,omitempty"`
}

func c20Skeleton(b []byte) c20Skel {
	sk := c20Skel{Top: []string{}, Events: [][]string{}}
	dec := json.NewDecoder(bytes.NewReader(b))
	dec.UseNumber()
	tok, err := dec.Token()
	if err != nil || tok != json.Delim('{') {
		sk.Bad = "not an object"
		return sk
	}
	for dec.More() {
		kt, err := dec.Token()
		if err != nil {
			sk.Bad = err.Error()
			return sk
		}
		key, _ := kt.(string)
		sk.Top = append(sk.Top, key)
		var raw json.RawMessage
		if err := dec.Decode(&raw); err != nil {
			sk.Bad = err.Error()
			return sk
		}
		if key != "events" {
			continue
		}
		var evs []json.RawMessage
		if err := json.Unmarshal(raw, &evs); err != nil {
			sk.Bad = "events: " + err.Error()
			return sk
		}
		for _, e := range evs {
			if strings.TrimSpace(string(e)) == "null" {
				sk.Events = append(sk.Events, nil)
				continue
			}
			keys := []string{}
			d2 := json.NewDecoder(bytes.NewReader(e))
			if t, err := d2.Token(); err != nil || t != json.Delim('{') {
				sk.Bad = "event is not an object"
				return sk
			}
			for d2.More() {
				kt, err := d2.Token()
				if err != nil {
					break
				}
				k, _ := kt.(string)
				keys = append(keys, k)
				var skip json.RawMessage
				if err := d2.Decode(&skip); err != nil && err != io.EOF {
					break
				}
			}
			sk.Events = append(sk.Events, keys)
		}
	}
	return sk
}
