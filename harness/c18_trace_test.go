package harness

import (
	"fmt"
	"runtime"
	"strings"
	"sync"

	"github.com/smartcontractkit/chainlink-automation/pkg/v2/observer/polling"
	"github.com/smartcontractkit/chainlink-automation/pkg/v3/service"
)

// C18 — exact trace validation of the recoverer.  Needs the `verif` instrumentation hooks in /repo
// (pkg/v3/service/verif_on.go: service.SetVerifHook; one verifPoint call after every access of
// recoverable.go to the running flag and the stopped channel, after every goroutine it starts, after the
// cool-down, and after the wrapped service's Start / Close returned).  This file only records; the check —
// per recoverer, the log must be, up to an admissible reordering and with the wrapped service's internal
// steps filled in, a path of the model's `stepCore` — is done by the driver (Spec/C18.lean `traceOk`,
// Drv/C18.lean `checkTrace`).
//
// The hook appends to ONE log under a mutex.  Guarantees of the log order: (1) events of one goroutine are in
// program order; (2) if hook call A returned before hook call B started, A is logged before B; (3) the action
// an event reports happened after the previous event of the same goroutine was logged and before the event
// itself was logged.  Two actions of different goroutines with overlapping intervals may be logged in either
// order; the checker looks for a reordering that respects (1)-(3).  The log is ONE for all recoverers of the case (a
// Close goroutine walks through all of them), each event carries its position and the position of its goroutine's
// previous event, so that (3) is kept when the driver checks the recoverers one by one.

type c18Tracer struct {
	mu    sync.Mutex
	ev    []c18Ev
	rec   map[any]int
	kinds []string // per recoverer: "once" (StateMachine / own running flag) | "latched" (result store) | "v2" (RecoverableService)
	gor   map[uint64]int
	last  map[int]int              // goroutine -> position of its latest event
	gates map[string]chan struct{} // armed gates: a goroutine reaching the point waits (after its event is logged) until the gate opens
}

func c18Goid() uint64 {
	var buf [64]byte
	n := runtime.Stack(buf[:], false)
	var id uint64
	for _, ch := range buf[len("goroutine "):n] {
		if ch < '0' || ch > '9' {
			break
		}
		id = id*10 + uint64(ch-'0')
	}
	return id
}

func c18ErrKind(a any) int {
	if a == nil {
		return 0
	}
	err, ok := a.(error)
	if !ok || err == nil {
		return 0
	}
	switch err.Error() {
	case "service stopped":
		return 2
	case "service context cancelled":
		return 3
	}
	return 1
}

func (tr *c18Tracer) hook(point string, args ...any) {
	goid := c18Goid()
	tr.mu.Lock()
	defer tr.mu.Unlock()
	r, ok := tr.rec[args[0]]
	if !ok {
		r = len(tr.kinds)
		tr.rec[args[0]] = r
		kind := "once"
		if strings.HasPrefix(point, "v2.") {
			kind = "v2" // internal/util.RecoverableService
		}
		tr.kinds = append(tr.kinds, kind)
	}
	g, ok := tr.gor[goid]
	if !ok {
		g = len(tr.gor)
		tr.gor[goid] = g
	}
	e := c18Ev{R: r, P: point, G: g, At: len(tr.ev)}
	if p, ok := tr.last[g]; ok {
		e.Pa = p + 1
	}
	tr.last[g] = e.At
	switch point {
	case "start.idle", "start.running":
		if len(args) > 1 && strings.Contains(fmt.Sprintf("%T", args[1]), "resultStore") {
			tr.kinds[r] = "latched"
		}
	case "ss.recv", "rs.sent", "rs.returned", "close.svc", "v2.w.recv", "v2.g.sent", "v2.g.returned":
		if len(args) > 1 {
			e.K = c18ErrKind(args[1])
		}
	}
	tr.ev = append(tr.ev, e)
	if g := tr.gates[point]; g != nil {
		tr.mu.Unlock()
		<-g // held: the schedule the case asks for (the channel belongs to the case's bubble: a durable block)
		tr.mu.Lock()
	}
}

func init() {
	c18TraceBegin = func() func() ([]c18Ev, []string) {
		tr := &c18Tracer{rec: map[any]int{}, gor: map[uint64]int{}, last: map[int]int{}, gates: map[string]chan struct{}{}}
		c18GateCtl = func(point string, arm bool) {
			tr.mu.Lock()
			defer tr.mu.Unlock()
			if arm {
				tr.gates[point] = make(chan struct{})
			} else if g := tr.gates[point]; g != nil {
				close(g)
				delete(tr.gates, point)
			}
		}
		service.SetVerifHook(tr.hook)
		polling.SetRecoverableServiceVerifHook(tr.hook)
		return func() ([]c18Ev, []string) {
			tr.mu.Lock()
			defer tr.mu.Unlock()
			return append([]c18Ev(nil), tr.ev...), append([]string(nil), tr.kinds...)
		}
	}
}
