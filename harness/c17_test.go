package harness

import (
	"context"
	"encoding/json"
	"errors"
	"fmt"
	"math/big"
	"sort"
	"sync"
	"testing"
	"testing/synctest"
	"time"

	ocr2keepersv2 "github.com/smartcontractkit/chainlink-automation/pkg/v2"
	"github.com/smartcontractkit/chainlink-automation/pkg/v2/coordinator"
)

// C17 — OCR2 (v2) report coordinator: lockout until the right log, convergent across orderings.
//
// One case = one base history of accepts / perform logs / stale-report logs plus
// admissible permutations of it (each key's accept before its logs).  Every
// ordering is executed on its own real coordinator (exported constructor,
// BasicEncoder, started: own 1 s poller and both cache cleaners) inside a synctest
// bubble.  Logs reach the coordinator only through its poller (fake LogProvider).
// Harness operations happen at ≡137 ms (mod 1 s) of virtual time, polls at ≡0.
//
// Two ways of driving it (Input.Via): "coord" = the coordinator alone, Accept called directly; "plugin" = the v2 plugin
// from its public factory around the same coordinator and the real PollingObserver (c17_plugin_test.go): accepts are
// finalized reports (one or several keys), and heads, Observe()/Observation(), Report() and
// ShouldTransmitAcceptedReport are interleaved with them, several observes per staged head.
//
// In both modes the coordinator is started (its own run loop on virtual time) and some polls fail: the log provider
// returns an error (plain, or wrapping context.Canceled / DeadlineExceeded) or panics, from PerformLogs or from
// StaleReportLogs, with or without logs on offer.  Logs offered on later polls must take effect, and the provider records
// every poll: an open started coordinator must ask it at least every 2 s (Polls / End in the run's output).
//
// Histories over several lockout windows (c17GenRenew): one upkeep's lock entry is written again and again, the writes
// a fraction of the window apart, with questions between (first write + window) and (last write + window); the Spec
// clause for them is `liveOk` / `lockout_renewed` (the lockout counts from the last change of the blocking state).

type c17Cfg struct {
	Lockout  int64 `json:"lockout"`  // ns, constructor argument (<1 → default 20 min)
	MinConfs int   `json:"minConfs"` // constructor argument
	Clean    int64 `json:"clean"`    // ns, cache-clean interval (off the poll grid)
}
type c17Op struct {
	// "a" accept one key, "p" perform log, "s" stale report log; plugin mode only: "A" accept a report of Keys,
	// "h" head Block with Active ids of which Ids are eligible, "o" Observe()+Observation(),
	// "x" ShouldTransmitAcceptedReport(Keys), "r" Report on observations (Block, [id]) for id in Ids
	T      string   `json:"t"`
	Key    string   `json:"key"`
	TB     string   `json:"tb"`
	Confs  int64    `json:"confs"`
	Keys   []string `json:"keys,omitempty"`
	Block  string   `json:"block,omitempty"`
	Active []string `json:"active,omitempty"`
	Ids    []string `json:"ids,omitempty"`
	// "e": a poll on which the log provider fails. Where = "perform" (PerformLogs fails: nothing is processed),
	// "stale" (StaleReportLogs fails: the perform logs of the poll are processed), "stalePartial" (StaleReportLogs
	// returns its logs together with the error: they are processed too). Kind = "plain" | "canceled" | "deadline"
	// (errors wrapping context.Canceled / DeadlineExceeded) | "panic". Logs = the "p"/"s" logs offered on that poll.
	// transaction hash of a log ("" = none): a re-orged log keeps the hash of the version it replaces
	Tx    string  `json:"tx,omitempty"`
	Where string  `json:"where,omitempty"`
	Kind  string  `json:"kind,omitempty"`
	Logs  []c17Op `json:"logs,omitempty"`
}

// c17Out is the answer of one operation (zero for operations without answer).
type c17Out struct {
	Flag   bool     `json:"flag"`
	Err    bool     `json:"err"`
	Block  string   `json:"block"`
	Ids    []string `json:"ids"`
	PBlock string   `json:"pblock"`
	Pick   []string `json:"pick"`
}
type c17RunIn struct {
	Ops   []c17Op `json:"ops"`
	Gaps  []int64 `json:"gaps"`  // whole seconds (ns) slept before position i
	Batch []bool  `json:"batch"` // position i may share the poll of position i-1 (perform* stale* order only)
	Mid   bool    `json:"mid"`   // also probe after every operation
	Tail  int64   `json:"tail"`  // ns slept before the final probe
	// final probe at (time of op TailRef) + TailSpan + TailDelta instead, when TailSpan > 0
	TailRef   int   `json:"tailRef"`
	TailSpan  int64 `json:"tailSpan"`
	TailDelta int64 `json:"tailDelta"`
}
type c17Input struct {
	Cfg c17Cfg `json:"cfg"`
	Via string `json:"via"` // "coord" (default) | "plugin"
	// plugin mode: another instance of the same factory exists — "open": until the end, "closeEarly": closed as soon as
	// the instance under test exists, "": none
	Decoy  string     `json:"decoy,omitempty"`
	Probes []string   `json:"probes"`
	CKeys  []string   `json:"ckeys"`
	Runs   []c17RunIn `json:"runs"`
}
type c17Obs struct {
	Pending   [][2]bool `json:"pending"` // (pending, err != nil)
	Confirmed []bool    `json:"confirmed"`
}
type c17RunOut struct {
	Times  []int64    `json:"times"`  // virtual ns since bubble start at which op i was processed
	Points [][2]int64 `json:"points"` // (number of ops processed, virtual ns of the probe)
	Obs    []c17Obs   `json:"obs"`
	Outs   []c17Out   `json:"outs"` // answer of op i
	End    int64      `json:"end"`  // virtual ns of the last observation
	Polls  c17Polls   `json:"polls"`
	Note   string     `json:"note,omitempty"`
}

// c17Polls: what the log provider saw of the started coordinator's poller up to End.
type c17Polls struct {
	N      int   `json:"n"`
	First  int64 `json:"first"`
	Last   int64 `json:"last"`
	MaxGap int64 `json:"maxGap"`
}
type c17Impl struct {
	Runs []c17RunOut `json:"runs"`
}

// c17Logs is the fake LogProvider: hands out what the harness queued, records poll times.
type c17Logs struct {
	mu       sync.Mutex
	start    time.Time
	performs []ocr2keepersv2.PerformLog
	stales   []ocr2keepersv2.StaleReportLog
	pPolls   []int64
	sPolls   []int64
	failAt   string // "", "perform", "stale", "stalePartial": where the next poll fails
	failKind string
}

func c17Failure(kind string) error {
	switch kind {
	case "canceled":
		return fmt.Errorf("c17: log db: %w", context.Canceled)
	case "deadline":
		return fmt.Errorf("c17: log db: %w", context.DeadlineExceeded)
	case "panic":
		panic("c17: log provider panic")
	}
	return errors.New("c17: log db unavailable")
}

func (f *c17Logs) PerformLogs(context.Context) ([]ocr2keepersv2.PerformLog, error) {
	f.mu.Lock()
	defer f.mu.Unlock()
	f.pPolls = append(f.pPolls, int64(time.Since(f.start)))
	if f.failAt == "perform" {
		f.failAt = ""
		return nil, c17Failure(f.failKind)
	}
	out := f.performs
	f.performs = nil
	return out, nil
}
func (f *c17Logs) StaleReportLogs(context.Context) ([]ocr2keepersv2.StaleReportLog, error) {
	f.mu.Lock()
	defer f.mu.Unlock()
	f.sPolls = append(f.sPolls, int64(time.Since(f.start)))
	out := f.stales
	f.stales = nil
	switch f.failAt {
	case "stale":
		f.failAt = ""
		return nil, c17Failure(f.failKind)
	case "stalePartial":
		f.failAt = ""
		return out, c17Failure(f.failKind)
	}
	return out, nil
}

func (f *c17Logs) stats() c17Polls {
	f.mu.Lock()
	defer f.mu.Unlock()
	p := c17Polls{N: len(f.pPolls)}
	for i, t := range f.pPolls {
		if i == 0 {
			p.First = t
		} else if g := t - f.pPolls[i-1]; g > p.MaxGap {
			p.MaxGap = g
		}
		p.Last = t
	}
	return p
}

const c17Second = int64(time.Second)
const c17Offset = 137 * int64(time.Millisecond)

// c17AccKeys are the keys an accepting operation registers (a report's accept loop stops at the first unparsable key).
func (o c17Op) accKeys() []string {
	switch o.T {
	case "a":
		return []string{o.Key}
	case "A":
		out := []string{}
		for _, k := range o.Keys {
			out = append(out, k)
			if _, _, ok := c17SplitKey(k); !ok {
				break
			}
		}
		return out
	}
	return nil
}

func (o c17Op) isLog() bool { return o.T == "p" || o.T == "s" }

// effLogs are the logs an operation gets processed: itself for "p"/"s"; for a failing poll what checkLogs still handles.
func (o c17Op) effLogs() []c17Op {
	switch {
	case o.isLog():
		return []c17Op{o}
	case o.T == "e" && o.Where != "perform":
		var out []c17Op
		for _, l := range o.Logs {
			if l.T == "p" || (l.T == "s" && o.Where == "stalePartial") {
				out = append(out, l)
			}
		}
		return out
	}
	return nil
}

// c17RunOne executes one ordering on a fresh coordinator / plugin; must be called inside a bubble.
func c17RunOne(in c17Input, r c17RunIn) (out c17RunOut) {
	start := time.Now()
	logs := &c17Logs{start: start}
	out.Times = make([]int64, len(r.Ops))
	out.Points = [][2]int64{}
	out.Obs = []c17Obs{}
	out.Outs = make([]c17Out, len(r.Ops))
	for i := range out.Outs {
		out.Outs[i] = c17Out{Ids: []string{}, Pick: []string{}}
	}
	node, err := c17NewNode(in, logs)
	if err != nil {
		out.Note = "setup: " + err.Error()
		return out
	}
	rc := node.coord
	defer func() {
		node.close()
		synctest.Wait()
	}()
	note := func(s string) {
		if s != "" && out.Note == "" {
			out.Note = s
		}
	}
	since := func() int64 { return int64(time.Since(start)) }
	clean := in.Cfg.Clean
	if clean < 1 {
		clean = int64(coordinator.DefaultCacheClean)
	}
	// keep the harness off the poller's and the cleaners' grids
	offGrid := func() {
		for since()%c17Second == 0 || since()%clean == 0 {
			time.Sleep(time.Nanosecond)
		}
		synctest.Wait()
	}
	probe := func(n int) {
		offGrid()
		o := c17Obs{Pending: make([][2]bool, 0, len(in.Probes)), Confirmed: make([]bool, 0, len(in.CKeys))}
		for _, k := range in.Probes {
			p, err := rc.IsPending(ocr2keepersv2.UpkeepKey(k))
			o.Pending = append(o.Pending, [2]bool{p, err != nil})
		}
		for _, k := range in.CKeys {
			o.Confirmed = append(o.Confirmed, rc.IsTransmissionConfirmed(ocr2keepersv2.UpkeepKey(k)))
		}
		out.Points = append(out.Points, [2]int64{int64(n), since()})
		out.Obs = append(out.Obs, o)
	}
	time.Sleep(time.Duration(c17Offset))
	synctest.Wait()
	i := 0
	for i < len(r.Ops) {
		if r.Gaps[i] > 0 {
			time.Sleep(time.Duration(r.Gaps[i]))
			synctest.Wait()
		}
		offGrid()
		op := r.Ops[i]
		if !op.isLog() && op.T != "e" {
			out.Times[i] = since()
			o, nt := node.do(i, op, synctest.Wait)
			out.Outs[i] = o
			note(nt)
			i++
		} else {
			// one poll: a failing poll with the logs it is offered, or a maximal run perform* stale* of batched positions
			j := i
			seenStale := false
			logs.mu.Lock()
			batch := []c17Op{}
			if op.T == "e" {
				logs.failAt, logs.failKind = op.Where, op.Kind
				for _, l := range op.Logs {
					if l.T == "p" {
						batch = append(batch, l)
					}
				}
				for _, l := range op.Logs {
					if l.T == "s" {
						batch = append(batch, l)
					}
				}
				j = i + 1
			} else {
				for j < len(r.Ops) && r.Ops[j].isLog() && (j == i || r.Batch[j]) {
					if r.Ops[j].T == "p" && seenStale {
						break
					}
					seenStale = seenStale || r.Ops[j].T == "s"
					batch = append(batch, r.Ops[j])
					j++
				}
			}
			for _, o := range batch {
				if o.T == "p" {
					logs.performs = append(logs.performs, ocr2keepersv2.PerformLog{Key: ocr2keepersv2.UpkeepKey(o.Key),
						TransmitBlock: ocr2keepersv2.BlockKey(o.TB), Confirmations: o.Confs, TransactionHash: o.Tx})
				} else {
					logs.stales = append(logs.stales, ocr2keepersv2.StaleReportLog{Key: ocr2keepersv2.UpkeepKey(o.Key),
						TransmitBlock: ocr2keepersv2.BlockKey(o.TB), Confirmations: o.Confs, TransactionHash: o.Tx})
				}
			}
			n0 := len(logs.pPolls)
			logs.mu.Unlock()
			// exactly one poll tick lies in (now, now + 1 s] — if the poller is alive
			time.Sleep(time.Second)
			synctest.Wait()
			logs.mu.Lock()
			at := since() // no poll: the logs were on offer for a whole cadence and are withdrawn now
			if len(logs.pPolls) == n0+1 {
				at = logs.pPolls[n0]
			}
			// what a poll did not take (a failed PerformLogs, a dead poller) is not offered again
			logs.performs, logs.stales, logs.failAt = nil, nil, ""
			logs.mu.Unlock()
			for k := i; k < j; k++ {
				out.Times[k] = at
			}
			i = j
		}
		if r.Mid && i < len(r.Ops) {
			probe(i)
		}
	}
	if r.TailSpan > 0 && r.TailRef >= 0 && r.TailRef < len(r.Ops) {
		target := out.Times[r.TailRef] + r.TailSpan + r.TailDelta
		if d := target - since(); d > 0 {
			time.Sleep(time.Duration(d))
			synctest.Wait()
		}
	} else if r.Tail > 0 {
		time.Sleep(time.Duration(r.Tail))
		synctest.Wait()
	}
	probe(len(r.Ops))
	out.End = since()
	out.Polls = logs.stats()
	return out
}

func c17Run(t *testing.T, in c17Input) c17Impl {
	impl := c17Impl{Runs: make([]c17RunOut, len(in.Runs))}
	for i := range in.Runs {
		r := in.Runs[i]
		// tolerate shrunk inputs (ops dropped without their schedule entries): missing gap = 0, missing batch = false
		for len(r.Gaps) < len(r.Ops) {
			r.Gaps = append(r.Gaps[:len(r.Gaps):len(r.Gaps)], 0)
		}
		for len(r.Batch) < len(r.Ops) {
			r.Batch = append(r.Batch[:len(r.Batch):len(r.Batch)], false)
		}
		synctest.Test(t, func(t *testing.T) { impl.Runs[i] = c17RunOne(in, r) })
	}
	return impl
}

// ---------------------------------------------------------------- generator

func c17Key(blk, id string) string { return blk + "|" + id }

func c17SplitKey(k string) (string, string, bool) {
	n, at := 0, -1
	for i := 0; i < len(k); i++ {
		if k[i] == '|' {
			n++
			at = i
		}
	}
	if n != 1 {
		return "", "", false
	}
	return k[:at], k[at+1:], true
}

// c17Admissible returns a random ordering of ops in which every log comes after the first accept of its key
// (logs of keys that are accepted nowhere, and all other operations, are free): a random linear extension.
func c17Admissible(r *Rng, ops []c17Op) []c17Op {
	all := map[string]bool{}
	for _, o := range ops {
		for _, k := range o.accKeys() {
			all[k] = true
		}
	}
	acc := map[string]bool{}
	left := make([]int, len(ops))
	for i := range left {
		left[i] = i
	}
	out := make([]c17Op, 0, len(ops))
	for len(left) > 0 {
		var enabled []int // positions in left
		for q, i := range left {
			ok := true
			for _, l := range ops[i].effLogs() {
				if all[l.Key] && !acc[l.Key] {
					ok = false
				}
			}
			if ok {
				enabled = append(enabled, q)
			}
		}
		q := enabled[r.Intn(len(enabled))]
		o := ops[left[q]]
		for _, k := range o.accKeys() {
			acc[k] = true
		}
		out = append(out, o)
		left = append(left[:q:q], left[q+1:]...)
	}
	return out
}

func c17Blocks(vals ...*big.Int) []string {
	seen := map[string]bool{}
	var out []string
	for _, v := range vals {
		if v.Sign() < 0 {
			continue
		}
		s := v.String()
		if !seen[s] {
			seen[s] = true
			out = append(out, s)
		}
	}
	return out
}

func c17Big(s string) *big.Int {
	b, ok := new(big.Int).SetString(s, 10)
	if !ok {
		return nil
	}
	return b
}

// c17Probes: for every id of the history (and one unseen id) the blocks around every
// check / transmit block that occurs (b-1, b, b+1, b+2), plus 0 and a large one.
func c17Probes(ops []c17Op, extra []string) (probes, ckeys []string) {
	ids := []string{}
	seenID := map[string]bool{}
	var marks []*big.Int
	seenKey := map[string]bool{}
	for _, o := range ops {
		var ks []string
		switch o.T {
		case "a", "p", "s":
			ks = []string{o.Key}
		case "A", "x":
			ks = o.Keys
		case "h", "r":
			if v := c17Big(o.Block); v != nil {
				marks = append(marks, v)
			}
		case "e":
			for _, l := range o.Logs {
				ks = append(ks, l.Key)
				if v := c17Big(l.TB); v != nil && l.T == "p" {
					marks = append(marks, v)
				}
			}
		}
		for _, k := range ks {
			if !seenKey[k] {
				seenKey[k] = true
				ckeys = append(ckeys, k)
			}
			if b, id, ok := c17SplitKey(k); ok {
				if !seenID[id] {
					seenID[id] = true
					ids = append(ids, id)
				}
				if v := c17Big(b); v != nil {
					marks = append(marks, v)
				}
			}
		}
		if o.T == "p" {
			if v := c17Big(o.TB); v != nil {
				marks = append(marks, v)
			}
		}
	}
	sort.Slice(marks, func(i, j int) bool { return marks[i].Cmp(marks[j]) < 0 })
	var vals []*big.Int
	vals = append(vals, big.NewInt(0))
	for _, m := range marks {
		for d := int64(-1); d <= 2; d++ {
			vals = append(vals, new(big.Int).Add(m, big.NewInt(d)))
		}
	}
	vals = append(vals, c17Big("18446744073709551615"))
	blocks := c17Blocks(vals...)
	if len(blocks) > 26 {
		// keep the boundaries of the highest marks (the ones that decide) and the ends
		blocks = append(blocks[:6:6], blocks[len(blocks)-20:]...)
	}
	ids = append(ids, "424242")
	for _, id := range ids {
		for _, b := range blocks {
			probes = append(probes, c17Key(b, id))
		}
	}
	probes = append(probes, extra...)
	ckeys = append(ckeys, c17Key("1", "424242"))
	return probes, ckeys
}

type c17GenKind int

const (
	c17Plain c17GenKind = iota
	c17Adversarial
	c17Expiry
)

func c17Gen(r *Rng, em *Emitter) c17Input {
	if r.Chance(11) {
		return c17GenRenew(r, em)
	}
	var in c17Input
	kind := c17Plain
	switch x := r.Intn(100); {
	case x < 12:
		kind = c17Adversarial
	case x < 26:
		kind = c17Expiry
	}
	if r.Chance(65) {
		in.Via = "plugin"
	} else {
		in.Via = "coord"
	}
	plugin := in.Via == "plugin"
	if plugin {
		in.Decoy = []string{"open", "open", "closeEarly", ""}[r.Intn(4)]
	}
	in.Cfg.MinConfs = r.Range(-1, 3)
	in.Cfg.Clean = 29_870_000_007
	if r.Chance(30) {
		in.Cfg.Clean = 7_330_000_003
	}
	switch r.Intn(4) {
	case 0:
		in.Cfg.Lockout = 0 // default 20 min
	case 1:
		in.Cfg.Lockout = int64(20*time.Minute) + 500_000_013
	default:
		in.Cfg.Lockout = int64(r.Range(200, 3000))*c17Second + 500_000_013
	}
	// "late": the lockout of everything accepted so far runs out first, only then the logs start to arrive
	late := kind == c17Expiry && r.Chance(40)
	if kind == c17Expiry {
		switch r.Intn(3) {
		case 0:
			in.Cfg.Lockout = int64(r.Range(3, 40))*c17Second + 500_000_013
			if late && r.Chance(20) {
				in.Cfg.Lockout = int64(r.Range(1, 9)) * 100_000_000 // shorter than one log poll
			} else if late {
				in.Cfg.Lockout = int64(r.Range(20, 60))*c17Second + 500_000_013
			}
		case 1:
			in.Cfg.Lockout = int64(2*time.Hour) + 500_000_013 // longer than the active-key lifetime
		default:
			in.Cfg.Lockout = int64(r.Range(50, 90))*c17Second + 500_000_013
		}
	}
	if plugin {
		in.Cfg.Lockout -= in.Cfg.Lockout % int64(time.Millisecond) // the off-chain config carries milliseconds
	}

	// ids and check blocks
	nIDs := r.Range(1, 3)
	idPool := []string{"5", "77", "3141592653589793238462643383279502884197", "0", "900"}
	ids := make([]string, 0, nIDs)
	for _, j := range r.Perm(len(idPool))[:nIDs] {
		ids = append(ids, idPool[j])
	}
	var base *big.Int
	switch r.Intn(10) {
	case 0:
		base = big.NewInt(int64(r.Range(0, 3)))
	case 1:
		base = new(big.Int).Sub(c17Big("18446744073709551615"), big.NewInt(int64(r.Range(0, 12)))) // near 2^64
	case 2:
		base = big.NewInt(int64(r.Range(95, 105))) // digit-length boundary 99/100
	default:
		base = big.NewInt(int64(r.Range(1000, 50_000_000)))
	}
	type kinfo struct {
		key, blk, id string
	}
	var keys []kinfo
	for _, id := range ids {
		nb := r.Range(1, 3)
		for b := 0; b < nb; b++ {
			blk := new(big.Int).Add(base, big.NewInt(int64(r.Range(0, 4)))).String()
			keys = append(keys, kinfo{c17Key(blk, id), blk, id})
		}
	}
	confs := func() int64 {
		switch r.Intn(8) {
		case 0:
			return int64(in.Cfg.MinConfs) - 1
		case 1:
			return int64(in.Cfg.MinConfs)
		case 2:
			return int64(in.Cfg.MinConfs) + 1
		case 3:
			return int64(r.Range(0, 3))
		case 4:
			// a log that has been on chain for long: any depth counts as confirmed, up to the ends of int64
			deep := []int64{100, 9_999, 10_000, 10_001, 14_400, 65_535, 65_536, 1<<31 - 1, 1 << 31, 1<<32 - 1, 1 << 32, 1 << 53, 1<<63 - 1}
			return deep[r.Intn(len(deep))]
		case 5:
			if r.Chance(25) {
				return []int64{-1, -2, -1 << 31, -1 << 63}[r.Intn(4)]
			}
			return int64(in.Cfg.MinConfs) + int64(r.Range(0, 5))
		default:
			return int64(in.Cfg.MinConfs) + int64(r.Range(0, 5))
		}
	}
	// transaction hashes: most logs carry one; a re-orged copy keeps it
	txHash := func() string {
		if r.Chance(20) {
			return ""
		}
		return "0x" + hx(r.Bytes(6))
	}
	transmit := func(k kinfo) string {
		b := c17Big(k.blk)
		if b == nil {
			b = big.NewInt(7)
		}
		switch r.Intn(10) {
		case 0: // at or below the check block (nonsense on chain, but decides the comparison)
			return new(big.Int).Add(b, big.NewInt(int64(r.Range(-2, 0)))).String()
		case 1: // exactly the stale boundary check+1
			return new(big.Int).Add(b, big.NewInt(1)).String()
		default:
			return new(big.Int).Add(b, big.NewInt(int64(r.Range(1, 7)))).String()
		}
	}
	n := r.Range(5, 30)
	var ops []c17Op
	accepted := map[string]bool{}
	var performed []c17Op
	maxBlock := c17Big("18446744073709551615")
	nearBlock := func() string {
		b := new(big.Int).Add(base, big.NewInt(int64(r.Range(0, 9))))
		if b.Cmp(maxBlock) > 0 {
			b = maxBlock
		}
		return b.String()
	}
	headOp := func() c17Op {
		o := c17Op{T: "h", Block: nearBlock(), Active: []string{}, Ids: []string{}}
		if r.Chance(6) {
			return o // empty registry: nothing is staged
		}
		o.Active = append(o.Active, ids...)
		if r.Chance(40) {
			o.Active = append(o.Active, "31337") // active but never eligible
		}
		for _, id := range ids {
			if r.Chance(85) {
				o.Ids = append(o.Ids, id)
			}
		}
		return o
	}
	someKeys := func(lo, hi int) []string {
		m := r.Range(lo, hi)
		out := make([]string, 0, m)
		for i := 0; i < m; i++ {
			out = append(out, keys[r.Intn(len(keys))].key)
		}
		return out
	}
	if plugin && r.Chance(75) {
		ops = append(ops, headOp())
	}
	cut := -1
	npre := r.Range(1, 6)
	for len(ops) < n {
		k := keys[r.Intn(len(keys))]
		if late && cut < 0 {
			// first phase of a late history: accepts only (plus heads / observes through the plugin)
			if len(ops) >= npre && len(accepted) > 0 {
				cut = len(ops)
				continue
			}
			if plugin && r.Chance(30) {
				if r.Bool() {
					ops = append(ops, headOp())
				} else {
					ops = append(ops, c17Op{T: "o"})
				}
			} else {
				ops = append(ops, c17Op{T: "a", Key: k.key})
				accepted[k.key] = true
			}
			continue
		}
		if late && accepted[k.key] && r.Chance(70) {
			// second phase: mostly logs of what was accepted before the pause
			if r.Chance(70) {
				o := c17Op{T: "p", Key: k.key, TB: transmit(k), Confs: confs(), Tx: txHash()}
				ops = append(ops, o)
				performed = append(performed, o)
			} else {
				ops = append(ops, c17Op{T: "s", Key: k.key, TB: transmit(k), Confs: confs(), Tx: txHash()})
			}
			continue
		}
		if plugin && r.Chance(36) {
			switch y := r.Intn(100); {
			case y < 20:
				ops = append(ops, headOp())
			case y < 55:
				ops = append(ops, c17Op{T: "o"})
			case y < 70:
				ks := someKeys(1, 3)
				if r.Chance(15) {
					ks = append(ks, c17Key(nearBlock(), "424242"))
				}
				ops = append(ops, c17Op{T: "x", Keys: ks})
			case y < 85:
				o := c17Op{T: "r", Block: nearBlock(), Ids: []string{}}
				for i, m := 0, r.Range(1, 4); i < m; i++ {
					o.Ids = append(o.Ids, ids[r.Intn(len(ids))])
				}
				ops = append(ops, o)
			default:
				ks := someKeys(2, 3)
				ops = append(ops, c17Op{T: "A", Keys: ks})
				for _, kk := range ks {
					accepted[kk] = true
				}
				if r.Chance(50) {
					ops = append(ops, c17Op{T: "o"})
				}
			}
			continue
		}
		if r.Chance(7) {
			// a poll on which the provider fails, with or without logs on offer
			o := c17Op{T: "e", Where: []string{"perform", "perform", "stale", "stale", "stalePartial"}[r.Intn(5)],
				Kind: []string{"plain", "canceled", "deadline", "panic"}[r.Intn(4)], Logs: []c17Op{}}
			if o.Where == "stalePartial" && o.Kind == "panic" {
				o.Kind = "plain" // a call cannot both return logs and panic
			}
			for i, m := 0, r.Intn(3); i < m; i++ {
				kk := keys[r.Intn(len(keys))]
				if r.Bool() {
					o.Logs = append(o.Logs, c17Op{T: "p", Key: kk.key, TB: transmit(kk), Confs: confs(), Tx: txHash()})
				} else {
					o.Logs = append(o.Logs, c17Op{T: "s", Key: kk.key, TB: transmit(kk), Confs: confs(), Tx: txHash()})
				}
			}
			ops = append(ops, o)
			em.Hit("fail:" + o.Where + "/" + o.Kind)
			continue
		}
		x := r.Intn(100)
		switch {
		case x < 34 || (!accepted[k.key] && x < 80):
			if plugin && r.Chance(35) {
				ops = append(ops, c17Op{T: "o"}) // the staged head is asked before ...
			}
			ops = append(ops, c17Op{T: "a", Key: k.key})
			accepted[k.key] = true
			if plugin && r.Chance(55) {
				ops = append(ops, c17Op{T: "o"}) // ... and again right after the accept
			}
		case x < 62:
			o := c17Op{T: "p", Key: k.key, TB: transmit(k), Confs: confs(), Tx: txHash()}
			ops = append(ops, o)
			performed = append(performed, o)
		case x < 74 && len(performed) > 0: // re-orged perform: same key, other transmit block
			o := performed[r.Intn(len(performed))]
			b := c17Big(o.TB)
			if b == nil {
				b = big.NewInt(9)
			}
			d := int64(r.Range(-3, 4))
			if d == 0 {
				d = 5
			}
			o.TB = new(big.Int).Add(b, big.NewInt(d)).String()
			if o.TB[0] == '-' {
				o.TB = "0"
			}
			o.Confs = confs()
			if r.Chance(25) {
				o.Tx = txHash() // re-mined as another transaction
			}
			if r.Chance(15) {
				o.T = "s" // the perform became a stale report in the re-org (same transaction)
			}
			ops = append(ops, o)
			performed = append(performed, o)
			em.Hit("op:reorg-perform")
		case x < 88:
			ops = append(ops, c17Op{T: "s", Key: k.key, TB: transmit(k), Confs: confs(), Tx: txHash()})
		case x < 94 && len(ops) > 0: // re-delivery of an earlier op
			ops = append(ops, ops[r.Intn(len(ops))])
			em.Hit("op:duplicate")
		default: // log for a key that is never accepted
			kk := c17Key(new(big.Int).Add(base, big.NewInt(9)).String(), k.id)
			if r.Bool() {
				ops = append(ops, c17Op{T: "p", Key: kk, TB: transmit(kinfo{kk, k.blk, k.id}), Confs: confs()})
			} else {
				ops = append(ops, c17Op{T: "s", Key: kk, TB: "1", Confs: confs()})
			}
			em.Hit("op:log-unknown-key")
		}
	}
	var extraProbes []string
	if kind == c17Adversarial {
		// replace / add a few malformed or non-canonical pieces
		bad := []func(k kinfo) c17Op{
			func(k kinfo) c17Op { return c17Op{T: "a", Key: c17Key("0"+k.blk, k.id)} },
			func(k kinfo) c17Op { return c17Op{T: "a", Key: c17Key("+"+k.blk, k.id)} },
			func(k kinfo) c17Op { return c17Op{T: "p", Key: c17Key("0"+k.blk, k.id), TB: transmit(k), Confs: 9} },
			func(k kinfo) c17Op { return c17Op{T: "a", Key: c17Key("abc", k.id)} },
			func(k kinfo) c17Op { return c17Op{T: "s", Key: c17Key("abc", k.id), TB: "1", Confs: 9} },
			func(k kinfo) c17Op { return c17Op{T: "a", Key: k.key + "|9"} },
			func(k kinfo) c17Op { return c17Op{T: "a", Key: k.blk} },
			func(k kinfo) c17Op { return c17Op{T: "a", Key: ""} },
			func(k kinfo) c17Op { return c17Op{T: "p", Key: k.key, TB: "xyz", Confs: 9} },
			func(k kinfo) c17Op { return c17Op{T: "p", Key: k.key, TB: "", Confs: 9} },
			func(k kinfo) c17Op { return c17Op{T: "p", Key: k.key, TB: "18446744073709551616", Confs: 9} },
			func(k kinfo) c17Op { return c17Op{T: "p", Key: k.key, TB: "018446744073709551616", Confs: 9} },
			func(k kinfo) c17Op { return c17Op{T: "p", Key: k.key, TB: "0" + transmit(k), Confs: 9} },
			func(k kinfo) c17Op { return c17Op{T: "a", Key: c17Key("-3", k.id)} },
			func(k kinfo) c17Op { return c17Op{T: "s", Key: c17Key("-3", k.id), TB: "1", Confs: 9} },
			func(k kinfo) c17Op { return c17Op{T: "a", Key: c17Key("18446744073709551615", k.id)} },
			func(k kinfo) c17Op {
				return c17Op{T: "s", Key: c17Key("18446744073709551615", k.id), TB: "1", Confs: 9}
			},
			func(k kinfo) c17Op { return c17Op{T: "a", Key: c17Key("", k.id)} },
			func(k kinfo) c17Op { return c17Op{T: "a", Key: c17Key(k.blk, "")} },
		}
		if plugin {
			bad = append(bad,
				// a report whose middle key does not parse: the keys after it are never registered
				func(k kinfo) c17Op { return c17Op{T: "A", Keys: []string{k.key, "abc", keys[0].key}} },
				func(k kinfo) c17Op { return c17Op{T: "A", Keys: []string{k.key + "|9", k.key}} },
				func(k kinfo) c17Op { return c17Op{T: "A", Keys: []string{}} },
				func(k kinfo) c17Op { return c17Op{T: "x", Keys: []string{}} },
				func(k kinfo) c17Op { return c17Op{T: "x", Keys: []string{"abc", k.key}} },
				func(k kinfo) c17Op { return c17Op{T: "h", Block: "0" + k.blk, Active: ids, Ids: ids} },
				func(k kinfo) c17Op { return c17Op{T: "h", Block: "abc", Active: ids, Ids: ids} },
				func(k kinfo) c17Op {
					return c17Op{T: "h", Block: k.blk, Active: append([]string{"5|9"}, ids...), Ids: append([]string{"5|9"}, ids...)}
				},
			)
		}
		m := r.Range(1, 4)
		for i := 0; i < m; i++ {
			o := bad[r.Intn(len(bad))](keys[r.Intn(len(keys))])
			at := r.Intn(len(ops) + 1)
			ops = append(ops[:at:at], append([]c17Op{o}, ops[at:]...)...)
		}
		extraProbes = []string{"", "7", "7|5|9", c17Key("abc", ids[0]), c17Key("07", ids[0]), c17Key("-1", ids[0]),
			c17Key("18446744073709551616", ids[0]), c17Key("18446744073709551617", ids[0])}
		if len(ops) > 34 {
			ops = ops[:34]
		}
	}
	in.Probes, in.CKeys = c17Probes(ops, extraProbes)

	// schedule: the same positions-in-time for every ordering
	gaps := make([]int64, len(ops))
	batch := make([]bool, len(ops))
	for i := range gaps {
		switch r.Intn(6) {
		case 0:
			gaps[i] = 0
		case 1:
			gaps[i] = int64(r.Range(1, 3)) * c17Second
		default:
			gaps[i] = int64(r.Range(0, 1)) * c17Second
		}
		batch[i] = r.Chance(45)
	}
	tail := int64(r.Range(0, 3)) * c17Second
	tailRef, tailSpan, tailDelta := -1, int64(0), int64(0)
	if late && cut >= 0 && cut < len(gaps) {
		// everything before the pause has expired when the first log is polled
		for i := range gaps {
			if gaps[i] > c17Second {
				gaps[i] = c17Second
			}
		}
		gaps[cut] = (in.Cfg.Lockout/c17Second + int64(r.Range(1, 3))) * c17Second
		em.Hit("kind:expiry/late")
	} else if kind == c17Expiry {
		win := in.Cfg.Lockout
		switch r.Intn(4) {
		case 0: // long pauses in the middle
			for k := 0; k < 2; k++ {
				gaps[r.Intn(len(gaps))] = (win/c17Second + int64(r.Range(-2, 3))) * c17Second
			}
		case 1: // final probe exactly at / around the lockout expiry of some op
			tailRef, tailSpan, tailDelta = r.Intn(len(ops)), win, int64(r.Range(-1, 1))
		case 2: // final probe around the active-key lifetime
			tailRef, tailSpan, tailDelta = r.Intn(len(ops)), int64(time.Hour), int64(r.Range(-1, 1))
		default: // pause longer than the active-key lifetime in the middle
			gaps[r.Intn(len(gaps))] = int64(time.Hour) + int64(r.Range(-2, 2))*c17Second
		}
		for i := range gaps {
			if gaps[i] < 0 {
				gaps[i] = 0
			}
		}
	}
	mk := func(o []c17Op, mid bool) c17RunIn {
		return c17RunIn{Ops: o, Gaps: gaps, Batch: batch, Mid: mid, Tail: tail, TailRef: tailRef, TailSpan: tailSpan, TailDelta: tailDelta}
	}
	in.Runs = append(in.Runs, mk(ops, true))
	for p := 0; p < 6; p++ {
		in.Runs = append(in.Runs, mk(c17Admissible(r, ops), false))
	}
	em.Hit([]string{"kind:plain", "kind:adversarial", "kind:expiry"}[kind])
	em.Hit("via:" + in.Via)
	if plugin {
		em.Hit("decoy:" + in.Decoy)
	}
	em.Hit(fmt.Sprintf("ops=%d", (len(ops)/5)*5))
	em.Hit(fmt.Sprintf("minConfs=%d", in.Cfg.MinConfs))
	em.Hit(fmt.Sprintf("ids=%d", len(ids)))
	for _, o := range ops {
		em.Hit("op:" + o.T)
	}
	return in
}

// c17GenRenew: one or two upkeeps that keep performing over SEVERAL lockout windows.  Per upkeep a chain of keys with
// rising check blocks; each round of the history raises the upkeep's blocking state at least once (the accept of the
// next key, the first confirmed log of the key in flight, a perform re-orged to a later block) and rounds are a fraction
// of the lockout window apart, so consecutive writes of one upkeep's lock entry are separated in time while the entry is
// still live.  Between the rounds come operations that change nothing (re-delivered accepts, logs of keys nobody accepted,
// under-confirmed logs, accepts of older check blocks; through the plugin: heads, observes, reports, transmit questions)
// — each followed by a probe in run 0 — and the final probe sits at (some write) + window − 1 ns / + 0 / + 1 ns or at
// a fraction of the window after it: questions later than (first write + window) and no later than (last write + window).
func c17GenRenew(r *Rng, em *Emitter) c17Input {
	var in c17Input
	in.Via = "coord"
	if r.Chance(55) {
		in.Via = "plugin"
		in.Decoy = []string{"open", "closeEarly", "", ""}[r.Intn(4)]
	}
	plugin := in.Via == "plugin"
	in.Cfg.MinConfs = r.Range(-1, 2)
	in.Cfg.Clean = 29_870_000_007
	if r.Chance(40) {
		in.Cfg.Clean = 7_330_000_003
	}
	switch x := r.Intn(100); {
	case x < 45:
		in.Cfg.Lockout = int64(r.Range(5, 30))*c17Second + 500_000_013
	case x < 75:
		in.Cfg.Lockout = int64(r.Range(30, 150))*c17Second + 500_000_013
	case x < 88:
		in.Cfg.Lockout = 0 // default 20 min
	default:
		in.Cfg.Lockout = int64(r.Range(8, 25))*int64(time.Minute) + 500_000_013
	}
	if plugin {
		in.Cfg.Lockout -= in.Cfg.Lockout % int64(time.Millisecond)
	}
	win := in.Cfg.Lockout
	if win < 1 {
		win = int64(coordinator.DefaultLockoutWindow)
	}
	nIDs := 1
	if win > 12*c17Second && r.Chance(55) {
		nIDs = 2
	}
	idPool := []string{"5", "77", "3141592653589793238462643383279502884197", "0", "900"}
	ids := make([]string, 0, nIDs)
	for _, j := range r.Perm(len(idPool))[:nIDs] {
		ids = append(ids, idPool[j])
	}
	var base int64
	switch r.Intn(6) {
	case 0:
		base = int64(r.Range(0, 3))
	case 1:
		base = int64(r.Range(90, 100)) // the chain crosses the digit-length boundary 99/100
	default:
		base = int64(r.Range(1000, 50_000_000))
	}
	type chain struct {
		id      string
		cur     string // key in flight ("" before the first accept)
		curBlk  int64
		logged  bool  // cur has had a confirmed log
		top     int64 // highest block mentioned for this id
		lastTB  int64
		isPerf  bool // the confirmed log of cur was a perform log
		tx      string
		oldKeys []string
	}
	chains := make([]*chain, len(ids))
	for i, id := range ids {
		chains[i] = &chain{id: id, top: base + int64(r.Range(0, 3))}
	}
	goodConfs := func() int64 {
		c := int64(in.Cfg.MinConfs)
		if c < 0 {
			c = 0
		}
		return c + int64(r.Range(0, 3))
	}
	txHash := func() string {
		if r.Chance(20) {
			return ""
		}
		return "0x" + hx(r.Bytes(6))
	}
	var ops []c17Op
	var gaps []int64
	var batch []bool
	var writes []int // positions of operations that raise some upkeep's blocking state
	add := func(o c17Op, gap int64, raises bool) {
		if raises {
			writes = append(writes, len(ops))
		}
		ops = append(ops, o)
		gaps = append(gaps, gap)
		batch = append(batch, false)
	}
	small := func() int64 { return int64(r.Range(0, 1)) * c17Second }
	blk := func(v int64) string { return big.NewInt(v).String() }
	headOp := func() c17Op {
		c := chains[r.Intn(len(chains))]
		b := c.top + int64(r.Range(-2, 3))
		if b < 0 {
			b = 0
		}
		o := c17Op{T: "h", Block: blk(b), Active: append([]string{}, ids...), Ids: []string{}}
		if r.Chance(30) {
			o.Active = append(o.Active, "31337")
		}
		for _, id := range ids {
			if r.Chance(90) {
				o.Ids = append(o.Ids, id)
			}
		}
		return o
	}
	// an operation that changes no blocking state (run 0 probes after it)
	spacer := func(gap int64) {
		c := chains[r.Intn(len(chains))]
		for try := 0; try < 4; try++ {
			switch x := r.Intn(100); {
			case plugin && x < 22:
				add(c17Op{T: "o"}, gap, false)
				return
			case plugin && x < 32:
				add(headOp(), gap, false)
				if r.Chance(70) {
					add(c17Op{T: "o"}, 0, false)
				}
				return
			case plugin && x < 40:
				o := c17Op{T: "r", Block: blk(c.top + int64(r.Range(-1, 2))), Ids: []string{}}
				for i, m := 0, r.Range(1, 3); i < m; i++ {
					o.Ids = append(o.Ids, ids[r.Intn(len(ids))])
				}
				add(o, gap, false)
				return
			case plugin && x < 47 && c.cur != "":
				ks := []string{c.cur}
				if len(c.oldKeys) > 0 && r.Bool() {
					ks = append(ks, c.oldKeys[r.Intn(len(c.oldKeys))])
				}
				add(c17Op{T: "x", Keys: ks}, gap, false)
				return
			case x < 60 && c.cur != "": // the accept of the key in flight delivered again
				add(c17Op{T: "a", Key: c.cur}, gap, false)
				em.Hit("renew:dup-accept")
				return
			case x < 70: // a log of a key nobody accepted
				kk := c17Key(blk(c.top+int64(r.Range(1, 4))), c.id)
				if r.Bool() {
					add(c17Op{T: "p", Key: kk, TB: blk(c.top + 9), Confs: goodConfs(), Tx: txHash()}, gap, false)
				} else {
					add(c17Op{T: "s", Key: kk, TB: "1", Confs: goodConfs(), Tx: txHash()}, gap, false)
				}
				em.Hit("renew:log-unknown-key")
				return
			case x < 80 && c.cur != "" && !c.logged && in.Cfg.MinConfs > 0: // a log of the key in flight with too few confirmations
				add(c17Op{T: "p", Key: c.cur, TB: blk(c.curBlk + int64(r.Range(1, 4))), Confs: int64(in.Cfg.MinConfs) - 1, Tx: txHash()}, gap, false)
				em.Hit("renew:under-confirmed")
				return
			case x < 90 && c.cur != "" && c.curBlk > 0: // an OLDER check block of the upkeep is accepted: absorbed, renews nothing
				add(c17Op{T: "a", Key: c17Key(blk(c.curBlk-int64(r.Range(1, int(c17Min(c.curBlk, 3))))), c.id)}, gap, false)
				em.Hit("renew:older-accept")
				return
			case x < 100 && c.cur != "" && c.logged && c.isPerf: // the perform log of the key in flight delivered again, unchanged
				add(c17Op{T: "p", Key: c.cur, TB: blk(c.lastTB), Confs: goodConfs(), Tx: c.tx}, gap, false)
				em.Hit("renew:dup-log")
				return
			}
		}
		add(c17Op{T: "s", Key: c17Key(blk(c.top+5), c.id), TB: "1", Confs: goodConfs()}, gap, false) // nothing else applies yet
	}
	// one raising event for chain c; returns false if none was possible
	raise := func(c *chain, gap int64) {
		x := r.Intn(100)
		switch {
		case c.cur != "" && !c.logged && x < 55:
			// first confirmed log of the key in flight
			if r.Chance(75) {
				tb := c.curBlk + int64(r.Range(1, 6))
				c.tx = txHash()
				add(c17Op{T: "p", Key: c.cur, TB: blk(tb), Confs: goodConfs(), Tx: c.tx}, gap, true)
				c.lastTB, c.isPerf = tb, true
				if tb > c.top {
					c.top = tb
				}
				em.Hit("renew:perform")
			} else {
				add(c17Op{T: "s", Key: c.cur, TB: blk(c.curBlk + int64(r.Range(1, 6))), Confs: goodConfs(), Tx: txHash()}, gap, true)
				c.lastTB, c.isPerf = c.curBlk+1, false
				if c.lastTB > c.top {
					c.top = c.lastTB
				}
				em.Hit("renew:stale")
			}
			c.logged = true
		case c.cur != "" && c.logged && c.isPerf && x < 20:
			// the perform is re-orged to a later block: the released-up-to boundary rises
			tb := c.lastTB + int64(r.Range(1, 4))
			if r.Chance(25) {
				c.tx = txHash()
			}
			add(c17Op{T: "p", Key: c.cur, TB: blk(tb), Confs: goodConfs(), Tx: c.tx}, gap, true)
			c.lastTB = tb
			if tb > c.top {
				c.top = tb
			}
			em.Hit("renew:reorg")
		default:
			// the next key of the upkeep: a check block above everything seen (mostly past the last transmit block)
			nb := c.curBlk + int64(r.Range(1, 3))
			if c.cur == "" {
				nb = c.top
			} else if r.Chance(80) && c.top >= nb {
				nb = c.top + int64(r.Range(0, 3))
				if nb <= c.curBlk {
					nb = c.curBlk + 1
				}
			}
			if c.cur != "" {
				c.oldKeys = append(c.oldKeys, c.cur)
			}
			c.cur, c.curBlk, c.logged, c.isPerf = c17Key(blk(nb), c.id), nb, false, false
			if nb > c.top {
				c.top = nb
			}
			if plugin && r.Chance(30) {
				add(c17Op{T: "o"}, gap, false)
				gap = 0
			}
			if plugin && r.Chance(35) {
				add(c17Op{T: "A", Keys: []string{c.cur}}, gap, true)
			} else {
				add(c17Op{T: "a", Key: c.cur}, gap, true)
			}
			if plugin && r.Chance(50) {
				add(c17Op{T: "o"}, 0, false)
			}
			em.Hit("renew:accept")
		}
	}
	if plugin && r.Chance(80) {
		add(headOp(), 0, false)
	}
	rounds := r.Range(2, 5)
	for j := 0; j < rounds; j++ {
		// the round starts a fraction of the window after the previous one; now and then more than a whole window
		// (then the locks have run out: outside the statement, compared with the model only)
		num := int64(r.Range(30, 92))
		if r.Chance(7) {
			num = int64(r.Range(100, 130))
		}
		g := win * num / 100
		if j == 0 {
			g = small()
		}
		// part of the wait is spent before operations that change nothing
		nsp := r.Range(0, 2)
		if j == 0 {
			nsp = 0
		}
		for k := 0; k < nsp; k++ {
			part := g * int64(r.Range(20, 60)) / 100
			part -= part % c17Second
			spacer(part)
			g -= part + c17Second
		}
		if g < 0 {
			g = 0
		}
		g -= g % c17Second
		for q, ci := range r.Perm(len(chains)) {
			c := chains[ci]
			gap := small()
			if q == 0 {
				gap = g
			}
			raise(c, gap)
			if r.Chance(45) {
				raise(c, small())
			}
		}
		if r.Chance(35) {
			spacer(small())
		}
	}
	if len(ops) > 40 {
		ops, gaps, batch = ops[:40], gaps[:40], batch[:40]
	}
	for i := range batch {
		batch[i] = r.Chance(30)
	}
	in.Probes, in.CKeys = c17Probes(ops, nil)
	// final probe: around the end of the window that a write started, or somewhere inside it
	var wr []int
	for _, w := range writes {
		if w < len(ops) {
			wr = append(wr, w)
		}
	}
	tailRef := len(ops) - 1
	if len(wr) > 0 {
		tailRef = wr[len(wr)-1]
		if r.Chance(35) {
			tailRef = wr[r.Intn(len(wr))]
		}
	}
	tailSpan, tailDelta := win, int64(r.Range(-1, 1))
	if r.Chance(40) {
		tailSpan, tailDelta = win*int64(r.Range(40, 99))/100, 0
	}
	mk := func(o []c17Op, mid bool) c17RunIn {
		return c17RunIn{Ops: o, Gaps: gaps, Batch: batch, Mid: mid, TailRef: tailRef, TailSpan: tailSpan, TailDelta: tailDelta}
	}
	in.Runs = append(in.Runs, mk(ops, true))
	for p := 0; p < 3; p++ {
		in.Runs = append(in.Runs, mk(c17Admissible(r, ops), false))
	}
	em.Hit("kind:renew")
	em.Hit("via:" + in.Via)
	if plugin {
		em.Hit("decoy:" + in.Decoy)
	}
	em.Hit(fmt.Sprintf("ops=%d", (len(ops)/5)*5))
	em.Hit(fmt.Sprintf("minConfs=%d", in.Cfg.MinConfs))
	em.Hit(fmt.Sprintf("ids=%d", len(ids)))
	em.Hit(fmt.Sprintf("renew:rounds=%d", rounds))
	for _, o := range ops {
		em.Hit("op:" + o.T)
	}
	return in
}

func c17Min(a, b int64) int64 {
	if a < b {
		return a
	}
	return b
}

// c17Edge: hand-written histories.
func c17Edge() []c17Input {
	mk := func(lockout int64, minConfs int, tail int64, ops []c17Op, perms ...[]int) c17Input {
		in := c17Input{Cfg: c17Cfg{Lockout: lockout, MinConfs: minConfs, Clean: 29_870_000_007}}
		in.Probes, in.CKeys = c17Probes(ops, []string{"", "x|y|z"})
		gaps := make([]int64, len(ops))
		batch := make([]bool, len(ops))
		run := func(o []c17Op, mid bool) c17RunIn {
			return c17RunIn{Ops: o, Gaps: gaps, Batch: batch, Mid: mid, Tail: tail, TailRef: -1}
		}
		in.Runs = append(in.Runs, run(ops, true))
		for _, p := range perms {
			o := make([]c17Op, len(p))
			for i, j := range p {
				o[i] = ops[j]
			}
			in.Runs = append(in.Runs, run(o, false))
		}
		return in
	}
	a := func(k string) c17Op { return c17Op{T: "a", Key: k} }
	p := func(k, tb string, c int64) c17Op { return c17Op{T: "p", Key: k, TB: tb, Confs: c} }
	s := func(k string, c int64) c17Op { return c17Op{T: "s", Key: k, TB: "99", Confs: c} }
	// through the plugin
	mkp := func(lockoutMs int64, minConfs int, ops []c17Op, perms ...[]int) c17Input {
		in := mk(lockoutMs*int64(time.Millisecond), minConfs, 0, ops, perms...)
		in.Via = "plugin"
		in.Decoy = []string{"open", "closeEarly"}[len(ops)%2]
		return in
	}
	h := func(b string, ids ...string) c17Op { return c17Op{T: "h", Block: b, Active: ids, Ids: ids} }
	o := c17Op{T: "o"}
	A := func(ks ...string) c17Op { return c17Op{T: "A", Keys: ks} }
	x := func(ks ...string) c17Op { return c17Op{T: "x", Keys: ks} }
	rp := func(b string, ids ...string) c17Op { return c17Op{T: "r", Block: b, Ids: ids} }
	// value domains: transaction hashes that survive a re-org, confirmations far beyond the minimum, and a pause longer
	// than the lockout before the first log
	ptx := func(k, tb string, c int64, tx string) c17Op { return c17Op{T: "p", Key: k, TB: tb, Confs: c, Tx: tx} }
	stx := func(k string, c int64, tx string) c17Op { return c17Op{T: "s", Key: k, TB: "99", Confs: c, Tx: tx} }
	gapAt := func(in c17Input, pos int, ns int64) c17Input {
		for i := range in.Runs {
			g := append([]int64(nil), in.Runs[i].Gaps...)
			g[pos] = ns
			in.Runs[i].Gaps = g
		}
		return in
	}
	values := []c17Input{
		// the same transaction re-mined in another block: 25 -> 28 and (other ordering) 28 -> 25
		mk(0, 0, 0, []c17Op{a("20|7"), ptx("20|7", "25", 3, "0xaa"), ptx("20|7", "28", 3, "0xaa")}, []int{0, 2, 1}),
		// a perform that became a stale report in the re-org, same transaction
		mk(0, 0, 0, []c17Op{a("20|7"), ptx("20|7", "25", 3, "0xbb"), stx("20|7", 3, "0xbb")}, []int{0, 2, 1}),
		// first sighting of a log that is already very deep; int64 extremes
		mk(0, 3, 0, []c17Op{a("10|7"), a("10|8"), ptx("10|7", "25", 10_001, "0xcc"), stx("10|8", 14_400, "0xdd")}),
		mk(0, 3, 0, []c17Op{a("10|7"), a("10|8"), ptx("10|7", "25", 1<<63-1, ""), stx("10|8", 1<<32, "")}),
		mk(0, -1, 0, []c17Op{a("10|7"), a("10|8"), ptx("10|7", "25", -1, ""), stx("10|8", -1<<63, "")}),
		// the lockout (5.5 s) runs out first, the first confirmed logs arrive 8 s after the accepts
		gapAt(mk(5*c17Second+500_000_013, 0, 0, []c17Op{a("10|7"), a("10|8"), ptx("10|7", "25", 3, "0xee"), stx("10|8", 0, "0xff")}), 2, 8*c17Second),
		// … through the plugin with a lockout shorter than one log poll (300 ms)
		mkp(300, 0, []c17Op{h("9", "7", "8"), a("10|7"), a("10|8"), o, ptx("10|7", "25", 3, "0x01"), o, stx("10|8", 0, "0x02"), h("12", "7", "8"), o, h("26", "7", "8"), o}),
	}
	// final probe at (time of op ref) + span + delta
	tailAt := func(in c17Input, ref int, span, delta int64) c17Input {
		for i := range in.Runs {
			in.Runs[i].TailRef, in.Runs[i].TailSpan, in.Runs[i].TailDelta = ref, span, delta
		}
		return in
	}
	w10 := 10*c17Second + 500_000_013
	renew := []c17Input{
		// several lockout windows (10.5 s): the next key of the upkeep is accepted 8 s after the first one and its log; the
		// re-delivered accept 4 s later changes nothing but is followed by a probe (12 s: past first write + window); the
		// final probe is at the very end of the window the SECOND accept started
		tailAt(gapAt(gapAt(mk(w10, 0, 0, []c17Op{a("10|7"), ptx("10|7", "15", 3, "0xa1"), a("20|7"), a("20|7")}), 2, 8*c17Second), 3, 4*c17Second), 2, w10, 0),
		// … one nanosecond later the lock is gone
		tailAt(gapAt(mk(w10, 0, 0, []c17Op{a("10|7"), ptx("10|7", "15", 3, "0xa2"), a("20|7")}), 2, 8*c17Second), 2, w10, 1),
		// a confirmed perform log long after the accept: blocks <= 15 stay filtered for a whole window after the LOG
		tailAt(gapAt(gapAt(mk(w10, 0, 0, []c17Op{a("10|9"), ptx("10|9", "15", 0, "0xa3"), a("10|9")}), 1, 7*c17Second), 2, 4*c17Second), 1, w10, -1),
		// three windows in a row, two upkeeps, a re-orged perform and a stale report as the renewing events
		tailAt(gapAt(gapAt(gapAt(mk(w10, 1, 0, []c17Op{a("10|7"), a("10|8"), ptx("10|7", "12", 1, "0xa4"), s("10|8", 1),
			ptx("10|7", "14", 2, "0xa4"), a("13|8"), a("15|7"), ptx("13|8", "16", 1, "0xa5"), a("10|8")}), 2, 6*c17Second), 4, 6*c17Second), 6, 7*c17Second), 7, w10, 0),
		// an OLDER check block accepted 8 s after the newer one renews nothing: the lock ends a window after the first accept
		tailAt(gapAt(mk(w10, 0, 0, []c17Op{a("20|7"), a("10|7")}), 1, 8*c17Second), 0, w10, 1),
		tailAt(gapAt(mk(w10, 0, 0, []c17Op{a("20|7"), a("10|7")}), 1, 8*c17Second), 0, w10, 0),
		// through the plugin (10 s): observes on one staged head while the lock is renewed by the next key
		tailAt(gapAt(gapAt(mkp(10_000, 0, []c17Op{h("9", "7", "8"), o, a("10|7"), o, ptx("10|7", "12", 0, "0xa6"), o, A("14|7"), o, h("13", "7", "8"), o, rp("14", "7", "8"), x("14|7", "10|7")}), 6, 7*c17Second), 8, 4*c17Second), 6, 10_000*int64(time.Millisecond), 0),
	}
	e := func(where, kind string, logs ...c17Op) c17Op {
		return c17Op{T: "e", Where: where, Kind: kind, Logs: logs}
	}
	fails := []c17Input{
		// one failed poll of each kind, then the unlocking log: polling goes on, the log takes effect
		mk(0, 0, 3*c17Second, []c17Op{a("10|1"), e("perform", "plain"), p("10|1", "12", 0)}),
		mk(0, 0, 3*c17Second, []c17Op{a("10|1"), e("perform", "canceled"), p("10|1", "12", 0)}),
		mk(0, 0, 3*c17Second, []c17Op{a("10|1"), e("stale", "deadline"), s("10|1", 0)}),
		mk(0, 0, 3*c17Second, []c17Op{a("10|1"), e("perform", "panic"), p("10|1", "12", 0)}),
		mk(0, 0, 3*c17Second, []c17Op{a("10|1"), e("stale", "panic"), s("10|1", 0)}),
		// logs on offer while the provider fails: lost with PerformLogs, performs kept with StaleReportLogs,
		// everything kept when the stale logs come back together with the error
		mk(0, 0, 0, []c17Op{a("10|1"), a("10|2"), e("perform", "plain", p("10|1", "12", 0), s("10|2", 0))}),
		mk(0, 0, 0, []c17Op{a("10|1"), a("10|2"), e("stale", "plain", p("10|1", "12", 0), s("10|2", 0))}),
		mk(0, 0, 0, []c17Op{a("10|1"), a("10|2"), e("stalePartial", "deadline", p("10|1", "12", 0), s("10|2", 0))}, []int{1, 0, 2}),
		// through the plugin: the first poll ever fails, later the accept and its log
		mkp(0, 0, []c17Op{e("perform", "canceled"), h("10", "1"), o, a("10|1"), o, e("stale", "plain", p("10|1", "11", 0)), o, h("12", "1"), o}),
	}
	plug := []c17Input{
		// one staged head, observed before and (twice) after one of its ids is accepted, then after the perform
		mkp(0, 0, []c17Op{h("10", "1", "2"), o, a("10|1"), o, o, p("10|1", "12", 0), o, h("13", "1", "2"), o}),
		// the only staged id gets locked: the observation must become empty on the same head
		mkp(0, 0, []c17Op{h("10", "1"), o, A("10|1"), o, x("10|1"), s("10|1", 0), o, x("10|1"), h("12", "1"), o}),
		// second key of an upkeep accepted while the first still locks it; only the first key's log arrives
		mkp(0, 0, []c17Op{a("3|1"), a("5|1"), p("3|1", "4", 0), x("5|1"), x("3|1"), rp("6", "1", "2"), h("7", "1", "2"), o},
			[]int{0, 2, 1, 3, 4, 5, 6, 7}),
		// a report with two keys of different upkeeps, one with two keys of the same upkeep
		mkp(0, 1, []c17Op{A("10|1", "10|2"), A("11|1", "12|1"), p("10|2", "13", 1), p("12|1", "14", 0), rp("14", "1", "2", "2"), x("10|2", "12|1"), x("10|2")}),
		// unparsable key in the middle of a report: 10|2 is never registered; minConfirmations -1 is 0
		mkp(5500, -1, []c17Op{A("10|1", "abc", "10|2"), x("10|2"), x("10|1"), h("11", "1", "2"), o, p("10|1", "11", 0), o, h("12", "1", "2"), o}),
		// empty registry stages nothing; empty reports are errors
		mkp(0, 0, []c17Op{h("10", "1"), h("11"), o, A(), x(), o}),
	}
	return append(append(append(append(values, renew...), fails...), plug...), []c17Input{
		// accept only: pending for every block
		mk(0, 1, 0, []c17Op{a("10|5")}),
		// perform at 15: blocks > 15 pass
		mk(0, 1, 0, []c17Op{a("10|5"), p("10|5", "15", 1)}),
		// too few confirmations: still pending, unconfirmed
		mk(0, 2, 0, []c17Op{a("10|5"), p("10|5", "15", 1)}),
		// stale report: blocks > 11 pass
		mk(0, 0, 0, []c17Op{a("10|5"), s("10|5", 0)}),
		// re-org: perform moves from 15 to 18 and (other order) from 18 to 15
		mk(0, 0, 0, []c17Op{a("10|5"), p("10|5", "15", 3), p("10|5", "18", 3)}, []int{0, 2, 1}),
		// perform and stale for one key, both orders
		mk(0, 0, 0, []c17Op{a("10|5"), p("10|5", "15", 3), s("10|5", 3)}, []int{0, 2, 1}),
		// two check blocks for one id; late log for the lower one; all admissible orders of interest
		mk(0, 0, 0, []c17Op{a("10|5"), a("12|5"), p("10|5", "14", 0), p("12|5", "13", 0)},
			[]int{1, 0, 3, 2}, []int{0, 2, 1, 3}, []int{1, 3, 0, 2}, []int{0, 1, 3, 2}),
		// log before its accept (not admissible): ignored, then the accept blocks indefinitely
		mk(0, 0, 0, []c17Op{p("10|5", "15", 0), a("10|5")}, []int{1, 0}),
		// non-canonical twin keys "7|5" / "07|5" (order dependence outside the canonical regime)
		mk(0, 0, 0, []c17Op{a("7|5"), a("07|5"), p("7|5", "10", 0), p("07|5", "11", 0), p("7|5", "20", 0)},
			[]int{0, 1, 2, 4, 3}),
		// unparsable transmit block
		mk(0, 0, 0, []c17Op{a("7|5"), p("7|5", "xyz", 0), p("7|5", "10", 0)}, []int{0, 2, 1}),
		// lockout expiry (5.5 s window, probe after 8 s)
		mk(5*c17Second+500_000_013, 0, 8*c17Second, []c17Op{a("10|5"), a("11|6"), p("11|6", "12", 0)}),
		// stale report at the top of the uint64 range: check+1 is the indefinite key
		mk(0, 0, 0, []c17Op{a("18446744073709551615|5"), s("18446744073709551615|5", 0)}),
	}...)
}

func TestC17(t *testing.T) {
	em := NewEmitter(t, "C17")
	defer em.Close()
	names, raws, replayOnly := corpusInputs(t, "C17")
	for i, raw := range raws {
		var in c17Input
		if err := json.Unmarshal(raw, &in); err != nil {
			t.Fatalf("%s: %v", names[i], err)
		}
		em.Emit(names[i], in, c17Run(t, in))
	}
	if replayOnly {
		return
	}
	for _, in := range c17Edge() {
		em.Emit("edge", in, c17Run(t, in))
	}
	r := NewRng(seed())
	n := tierN(1000, 20000)
	for i := 0; i < n; i++ {
		in := c17Gen(r, em)
		em.Emit("gen", in, c17Run(t, in))
	}
}
