package harness

import (
	"bytes"
	"context"
	"fmt"
	"hash/fnv"
	"runtime"
	"sync"
	"testing"
	"testing/synctest"
	"time"

	gojson "encoding/json"
	"github.com/smartcontractkit/libocr/commontypes"
	"github.com/smartcontractkit/libocr/offchainreporting2plus/ocr3types"
	ocr2plustypes "github.com/smartcontractkit/libocr/offchainreporting2plus/types"

	ocr2keepersv3 "github.com/smartcontractkit/chainlink-automation/pkg/v3"
	ocr2keepers "github.com/smartcontractkit/chainlink-common/pkg/types/automation"
)

// C01 / C02 / C05 share the round generator of round_test.go; each emits its own case stream.

// runChain runs `rounds` consecutive rounds of a generated world on a fresh node and calls emit for each.
func runChain(t *testing.T, r *Rng, em *Emitter, opts roundOpts, rounds int, emit func(node *Node, w *roundWorld, in JRound)) {
	synctest.Test(t, func(t *testing.T) {
		w := newRoundWorld(r, opts)
		withNode(t, NodeOpts{N: w.n, F: w.f, Digest: w.digest}, func(node *Node) {
			seq := uint64(r.Range(1, 1000))
			for k := 0; k < rounds; k++ {
				w.refillPools()
				gobs := w.genRoundObservations(em)
				raws := make([][]byte, len(gobs))
				oracles := make([]int, len(gobs))
				for i, g := range gobs {
					raws[i] = encodeObs(g)
					oracles[i] = g.oracle
				}
				in := buildRound(w.n, w.f, w.digest, seq, w.prev, raws, oracles)
				em.Hit(fmt.Sprintf("n=%d,f=%d", w.n, w.f))
				em.Hit(fmt.Sprintf("obs=%d", len(gobs)))
				if r.Chance(8) {
					// the same observations on top of a previous outcome that Outcome must refuse: no outcome, and no trace
					// of the refused call in the evaluation that follows
					if bad, ok := badPrevVariant(r, in, w.prev); ok {
						em.Hit("prev=" + bad.PrevMode)
						emit(node, w, bad)
					}
				}
				emit(node, w, in)
				seq += uint64(r.Range(1, 12))
				w.height += uint64(r.Range(0, 3))
				if opts.jumps && r.Chance(35) {
					w.height += uint64(r.Range(14, 5000))
				}
			}
		})
	})
}

// replayRound runs a stored JRound on a fresh node.
func replayRound(t *testing.T, in JRound, fn func(node *Node)) {
	synctest.Test(t, func(t *testing.T) {
		withNode(t, NodeOpts{N: in.N, F: in.F, Digest: b32(in.Digest)}, fn)
	})
}

func chainStep(w *roundWorld, impl JRoundImpl) {
	if impl.Outcome != nil {
		o := fromJOutcome(*impl.Outcome)
		w.prev = &o
		// results that were agreed leave the pool (they would be removed from staging)
		agreed := map[string]bool{}
		for _, r := range o.AgreedPerformables {
			agreed[r.WorkID] = true
		}
		kept := w.results[:0]
		for _, r := range w.results {
			if !agreed[r.WorkID] || w.r.Chance(15) {
				kept = append(kept, r)
			}
		}
		w.results = kept
	}
}

func TestC01(t *testing.T) {
	em := NewEmitter(t, "C01")
	defer em.Close()
	names, raws, replayOnly := corpusInputs(t, "C01")
	for i, raw := range raws {
		var in JRound
		if err := gojson.Unmarshal(raw, &in); err != nil {
			t.Fatalf("%s: %v", names[i], err)
		}
		replayRound(t, in, func(node *Node) { impl, _ := runOutcome(node, in); em.Emit(names[i], in, impl) })
	}
	if replayOnly {
		return
	}
	for _, in := range c01Edge() {
		replayRound(t, in, func(node *Node) { impl, _ := runOutcome(node, in); em.Emit("edge", in, impl) })
	}
	r := NewRng(seed())
	chains := tierN(120, 2500)
	for c := 0; c < chains; c++ {
		opts := roundOpts{maxPool: 30, byzantine: true, proposalsMax: 8, atLimit: atLimitRate(), longTails: true}
		if c%10 == 0 {
			opts.maxPool = 160 // exceed the 100-result cap
		}
		runChain(t, r, em, opts, 4, func(node *Node, w *roundWorld, in JRound) {
			impl, _ := runOutcome(node, in)
			em.Emit("gen", in, impl)
			chainStep(w, impl)
		})
	}
}

// c01Edge: hand-written witnesses, the UniqueID collisions repaired by "fix: performables…" among them.
func c01Edge() []JRound {
	r := NewRng(77)
	var out []JRound
	for variant := 0; variant < 3; variant++ {
		digest := genHash(r)
		base := genResult(r, genUpkeepID(r, false), 100)
		var a, b ocr2keepers.CheckResult
		for {
			a, b = collisionPair(r, base)
			if a.UniqueID() == b.UniqueID() {
				break
			}
		}
		o0 := ocr2keepersv3.AutomationObservation{Performable: []ocr2keepers.CheckResult{a}}
		o1 := ocr2keepersv3.AutomationObservation{Performable: []ocr2keepers.CheckResult{b}}
		o2 := ocr2keepersv3.AutomationObservation{}
		raws := [][]byte{must(o0.Encode()), must(o1.Encode()), must(o2.Encode())}
		out = append(out, buildRound(4, 1, digest, 5, nil, raws, []int{0, 1, 2}))
		// the same with both colliding results at quorum (two votes each): both distinct results are quorum results for one work id
		raws2 := [][]byte{must(o0.Encode()), must(o1.Encode()), must(o0.Encode()), must(o1.Encode())}
		out = append(out, buildRound(4, 1, digest, 6, nil, raws2, []int{0, 1, 2, 3}))
	}
	// a three-way UniqueID collision, one vote each (n=4, f=1), and with the third variant seen second
	{
		digest := genHash(r)
		t := collisionTriple(genResult(r, genUpkeepID(r, false), 100))
		enc := func(x ocr2keepers.CheckResult) []byte {
			return must(ocr2keepersv3.AutomationObservation{Performable: []ocr2keepers.CheckResult{x}}.Encode())
		}
		out = append(out, buildRound(4, 1, digest, 8, nil, [][]byte{enc(t[0]), enc(t[1]), enc(t[2])}, []int{0, 1, 2}))
		out = append(out, buildRound(4, 1, digest, 9, nil, [][]byte{enc(t[0]), enc(t[2]), enc(t[1]), enc(t[2])}, []int{0, 1, 2, 3}))
		out = append(out, buildRound(7, 2, digest, 9, nil, [][]byte{enc(t[0]), enc(t[2]), enc(t[1]), enc(t[1]), enc(t[2]), enc(t[0]), enc(t[0])}, []int{0, 1, 2, 3, 4, 5, 6}))
	}
	// one oracle lists the same result twice, not adjacent: [A, B, A] (must invalidate the whole observation)
	{
		digest := genHash(r)
		a := genResult(r, genUpkeepID(r, false), 100)
		b := genResult(r, genUpkeepID(r, true), 100)
		dup := must(ocr2keepersv3.AutomationObservation{Performable: []ocr2keepers.CheckResult{a, b, a}}.Encode())
		empty := must(ocr2keepersv3.AutomationObservation{}.Encode())
		out = append(out, buildRound(4, 1, digest, 3, nil, [][]byte{dup, empty, empty}, []int{0, 1, 2}))
	}
	// n = 3f+2: 2f+1 observations at the 100-performable limit with pairwise different results arrive BEFORE the two
	// vouchers of X (300 distinct results are tallied first): X still has f+1 identical votes and must be agreed
	{
		digest := genHash(r)
		x := genResult(r, genUpkeepID(r, false), 100)
		var raws [][]byte
		for o := 0; o < 3; o++ {
			var rs []ocr2keepers.CheckResult
			for i := 0; i < 100; i++ {
				rs = append(rs, genResult(r, genUpkeepID(r, i%2 == 0), 100))
			}
			raws = append(raws, must(ocr2keepersv3.AutomationObservation{Performable: rs}.Encode()))
		}
		vx := must(ocr2keepersv3.AutomationObservation{Performable: []ocr2keepers.CheckResult{x}}.Encode())
		raws = append(raws, vx, vx)
		out = append(out, buildRound(5, 1, digest, 14, nil, raws, []int{0, 1, 2, 3, 4}))
		out = append(out, buildRound(8, 2, digest, 15, nil, append(append([][]byte{}, raws[:3]...), raws[0], raws[1], vx, vx, vx), []int{0, 1, 2, 3, 4, 5, 6, 7}))
	}
	// one log hits two upkeeps: u1 has a quorum result, u2 only a proposal — in the observation of u1's first voucher,
	// carrying the same log extension; the round has a quorum block, so the proposal is stamped (its extension's block
	// number is cleared): the agreed result for u1 must keep its own trigger
	{
		digest := genHash(r)
		u1, u2 := genUpkeepID(r, true), genUpkeepID(r, true)
		r1 := genResult(r, u1, 100)
		r1.Trigger.LogTriggerExtension.BlockNumber = 97
		r1.WorkID = wg(u1, r1.Trigger)
		ext := *r1.Trigger.LogTriggerExtension
		t2 := ocr2keepers.NewLogTrigger(100, r1.Trigger.BlockHash, &ext)
		p2 := ocr2keepers.CoordinatedBlockProposal{UpkeepID: u2, Trigger: t2, WorkID: wg(u2, t2)}
		hist := ocr2keepers.BlockHistory{{Number: 101, Hash: genHash(r)}, {Number: 100, Hash: r1.Trigger.BlockHash}}
		o0 := must(ocr2keepersv3.AutomationObservation{Performable: []ocr2keepers.CheckResult{r1}, UpkeepProposals: []ocr2keepers.CoordinatedBlockProposal{p2}, BlockHistory: hist}.Encode())
		o1 := must(ocr2keepersv3.AutomationObservation{Performable: []ocr2keepers.CheckResult{r1}, BlockHistory: hist}.Encode())
		o2 := must(ocr2keepersv3.AutomationObservation{BlockHistory: hist}.Encode())
		out = append(out, buildRound(4, 1, digest, 16, nil, [][]byte{o0, o1, o2}, []int{0, 1, 2}))
		out = append(out, buildRound(4, 1, digest, 17, nil, [][]byte{o1, o2, o0}, []int{0, 1, 2}))
	}
	// volume: 100 agreed results of ~13 kB each (10 000 bytes of perform data), spread over four observations that each
	// stay under the observation limit; the outcome (~1.3 MB) is far below MaxOutcomeLength and must list all of them
	{
		digest := genHash(r)
		var rs []ocr2keepers.CheckResult
		for i := 0; i < 100; i++ {
			res := genResult(r, genUpkeepID(r, i%2 == 0), 100)
			res.PerformData = r.Bytes(10000)
			rs = append(rs, res)
		}
		lo := must(ocr2keepersv3.AutomationObservation{Performable: rs[:65]}.Encode())
		hi := must(ocr2keepersv3.AutomationObservation{Performable: rs[35:]}.Encode())
		out = append(out, buildRound(4, 1, digest, 12, nil, [][]byte{lo, hi, hi, lo}, []int{0, 1, 2, 3}))
	}
	// message size: X is vouched for by oracle 0 (a small observation) and by oracle 1, whose observation is exactly at
	// the advertised maximum length, one byte below it, or one byte above it (that one libocr never hands over); the
	// room is taken by white space or by 80 other results with perform data. X's quorum hangs on oracle 1's vote.
	for style := 0; style < 2; style++ {
		for _, d := range []int{0, -1, 1} {
			digest := genHash(r)
			x := genResult(r, genUpkeepID(r, style == 0), 100)
			y := genResult(r, genUpkeepID(r, true), 100)
			small := must(ocr2keepersv3.AutomationObservation{Performable: []ocr2keepers.CheckResult{x}}.Encode())
			full := padObservation(ocr2keepersv3.AutomationObservation{Performable: []ocr2keepers.CheckResult{y, x}}, ocr2keepersv3.MaxObservationLength+d, style)
			empty := must(ocr2keepersv3.AutomationObservation{}.Encode())
			out = append(out, buildRound(4, 1, digest, uint64(20+3*style+d), nil, [][]byte{small, full, empty}, []int{0, 1, 2}))
		}
	}
	return out
}

// ---------------------------------------------------------------- C05

func TestC05(t *testing.T) {
	em := NewEmitter(t, "C05")
	defer em.Close()
	names, raws, replayOnly := corpusInputs(t, "C05")
	for i, raw := range raws {
		var in JRound
		if err := gojson.Unmarshal(raw, &in); err != nil {
			t.Fatalf("%s: %v", names[i], err)
		}
		replayRound(t, in, func(node *Node) { impl, _ := runOutcome(node, in); em.Emit(names[i], in, impl) })
	}
	if replayOnly {
		return
	}
	r := NewRng(seed() + 5000)
	chains := tierN(25, 500)
	for c := 0; c < chains; c++ {
		opts := roundOpts{maxPool: 8, byzantine: c%2 == 0, proposalsMax: 12}
		if c%5 == 0 {
			opts.proposalsMax = 90 // exceed the 50 per round limit
		}
		if c%5 == 3 {
			opts.maxPool = 170 // more than 100 quorum results in a round while their work sits in the proposal history
		}
		opts.bigHeights = c%6 == 1
		opts.jumps = c%4 == 2
		runChain(t, r, em, opts, 30, func(node *Node, w *roundWorld, in JRound) {
			impl, _ := runOutcome(node, in)
			em.Emit("gen", in, impl)
			chainStep(w, impl)
			// proposals that were surfaced mostly leave the local pools
			if w.prev != nil && len(w.prev.SurfacedProposals) > 0 {
				sur := map[string]bool{}
				for _, p := range w.prev.SurfacedProposals[0] {
					sur[p.WorkID] = true
				}
				kept := w.props[:0]
				for _, p := range w.props {
					if !sur[p.WorkID] || w.r.Chance(30) {
						kept = append(kept, p)
					}
				}
				w.props = kept
				// some surfaced proposals turn into results (checked on the coordinated block)
				for _, p := range w.prev.SurfacedProposals[0] {
					if w.r.Chance(35) {
						res := genResult(w.r, p.UpkeepID, uint64(p.Trigger.BlockNumber))
						res.Trigger = p.Trigger
						res.WorkID = p.WorkID
						w.results = append(w.results, res)
					}
				}
			}
		})
	}
}

// ---------------------------------------------------------------- C02

type c02Impl struct {
	JRoundImpl
	Evals   []string   `json:"evals"`   // outcome bytes of every evaluation (hex)
	Reports [][]string `json:"reports"` // per evaluation: the reports' bytes (hex)
	RepErr  []string   `json:"reperr"`
}

// dirtyNode gives a node local state that must not influence Outcome/Reports.
func dirtyNode(r *Rng, node *Node, w *roundWorld) {
	// staged results via the log-trigger flow, in-flight state via accepted reports, a different clock
	var payloads []ocr2keepers.UpkeepPayload
	byWid := map[string]ocr2keepers.CheckResult{}
	for _, res := range w.results {
		payloads = append(payloads, ocr2keepers.UpkeepPayload{UpkeepID: res.UpkeepID, Trigger: res.Trigger, WorkID: res.WorkID})
		byWid[res.WorkID] = res
	}
	node.Run.mu.Lock()
	node.Run.fn = func(_ context.Context, ps []ocr2keepers.UpkeepPayload) ([]ocr2keepers.CheckResult, error) {
		out := make([]ocr2keepers.CheckResult, 0, len(ps))
		for _, p := range ps {
			if res, ok := byWid[p.WorkID]; ok {
				out = append(out, res)
			}
		}
		return out, nil
	}
	node.Run.mu.Unlock()
	node.Logs.mu.Lock()
	node.Logs.payloads = payloads
	node.Logs.mu.Unlock()
	time.Sleep(time.Duration(r.Range(2100, 9000)) * time.Millisecond)
	var events []ocr2keepers.TransmitEvent
	for i, res := range w.results {
		if i%3 == 0 {
			rep := must(node.Enc.Encode(res))
			node.Plugin.ShouldAcceptAttestedReport(context.Background(), 1, ocr3types.ReportWithInfo[pluginInfo]{Report: rep})
			// half of the accepted work has meanwhile been performed (or has gone stale) on chain, as THIS node's RPC sees it
			if i%6 == 0 {
				typ := ocr2keepers.PerformEvent
				if i%12 == 0 {
					typ = ocr2keepers.StaleReportEvent
				}
				events = append(events, ocr2keepers.TransmitEvent{Type: typ, TransmitBlock: res.Trigger.BlockNumber + 2, Confirmations: 5,
					TransactionHash: [32]byte{byte(i), 0xe1}, UpkeepID: res.UpkeepID, WorkID: res.WorkID, CheckBlock: res.Trigger.BlockNumber})
			}
		}
	}
	node.Enc.Take()
	if len(events) > 0 {
		node.Events.Set(events...)
		time.Sleep(1300 * time.Millisecond) // the coordinator polls its event provider once a second
		synctest.Wait()
	}
}

// atLimitRate: how many rounds per thousand carry an observation at the size limit (each is a case line of 2–6 MB)
func atLimitRate() int {
	if thorough() {
		return 5
	}
	return 20
}

// the GOMAXPROCS values the evaluations of C02 rotate through (reset at the start of every case)
var procsTurn = []int{1, 2, 3, 8, 6}
var procsNext int

func evalRound(node *Node, in JRound, times int) (impl JRoundImpl, evals []string, reports [][]string, reperr []string) {
	return evalRoundX(node, in, times, true)
}

// evalRoundX: `extras` adds the evaluations under a cancelled context, another epoch and in concurrent goroutines
func evalRoundX(node *Node, in JRound, times int, extras bool) (impl JRoundImpl, evals []string, reports [][]string, reperr []string) {
	var kept [][]byte   // outcome byte slices exactly as returned, retained by the caller
	var keptHex []string // what they contained when they were returned
	defer func() {
		// bytes handed out earlier must not change afterwards (no aliasing of internal buffers)
		for i := range kept {
			if hx(kept[i]) != keptHex[i] {
				evals = append(evals, fmt.Sprintf("RETAINED-BYTES-CHANGED eval %d", i))
			}
		}
	}()
	// evaluation under a cancelled context, under another epoch/round of the same sequence number, and concurrently with
	// other evaluations: if a value is returned it must be the same bytes
	if extras {
		aos := delivered(node, in)
		prevBytes := prevBytesOf(in)
		cctx, cancel := context.WithCancel(context.Background())
		cancel()
		if b, err := node.Plugin.Outcome(cctx, ocr3types.OutcomeContext{SeqNr: in.Seq, PreviousOutcome: prevBytes}, nil, aos); err == nil {
			evals = append(evals, hx(b)+"|")
		}
		if b, err := node.Plugin.Outcome(context.Background(), ocr3types.OutcomeContext{SeqNr: in.Seq, Epoch: 7, Round: 3, PreviousOutcome: prevBytes}, nil, aos); err == nil {
			evals = append(evals, hx(b)+"|")
		}
		var wgc sync.WaitGroup
		conc := make([]string, 6)
		for g := range conc {
			wgc.Add(1)
			go func(g int) {
				defer wgc.Done()
				if g%2 == 1 {
					// unrelated rounds in flight at the same time
					node.Plugin.Outcome(context.Background(), ocr3types.OutcomeContext{SeqNr: in.Seq + uint64(100+g), PreviousOutcome: prevBytes}, nil, aos)
					return
				}
				if b, err := node.Plugin.Outcome(context.Background(), ocr3types.OutcomeContext{SeqNr: in.Seq, PreviousOutcome: prevBytes}, nil, aos); err == nil {
					conc[g] = hx(b) + "|"
				}
			}(g)
		}
		wgc.Wait()
		for _, c := range conc {
			if c != "" {
				evals = append(evals, c)
			}
		}
	}
	for k := 0; k < times; k++ {
		if k == 2 {
			// a different round in between (another Encode in the same process)
			other := in
			other.Seq = in.Seq + 1
			if len(other.Obs) > 1 {
				other.Obs = other.Obs[:len(other.Obs)-1]
			}
			runOutcome(node, other)
		}
		// every second evaluation runs as if on a machine with another number of usable CPUs (the oracles of a network
		// do not run on identical hardware): 1, 2, 3, 8 in turn across the evaluations and instances of a case; the
		// others run with what the process has (16 in the checks)
		oldProcs := runtime.GOMAXPROCS(0)
		if k%2 == 1 || times == 1 {
			runtime.GOMAXPROCS(procsTurn[procsNext%len(procsTurn)])
			procsNext++
		}
		im, raw := runOutcome(node, in)
		if raw != nil {
			kept = append(kept, raw)
			keptHex = append(keptHex, hx(raw))
		}
		if k == 0 {
			impl = im
		}
		evals = append(evals, im.Bytes+"|"+im.Err)
		var reps []string
		if raw != nil {
			rs, err := node.Plugin.Reports(context.Background(), in.Seq, raw)
			for _, rp := range rs {
				reps = append(reps, hx(rp.ReportWithInfo.Report))
			}
			if err != nil {
				reperr = append(reperr, err.Error())
			}
		}
		runtime.GOMAXPROCS(oldProcs)
		node.Enc.Take()
		reports = append(reports, reps)
		// the caller recycles the buffer Outcome returned: the same slice now holds ANOTHER outcome of the same length
		// for this sequence number; Reports must answer for the bytes it is given now
		if raw != nil && k == 1 {
			if i := bytes.Index(raw, []byte(`"GasAllocated":`)); i >= 0 {
				j := i + len(`"GasAllocated":`)
				for j < len(raw) && raw[j] >= '0' && raw[j] <= '9' {
					j++
				}
				if d := raw[j-1]; d >= '0' && d <= '8' {
					raw[j-1] = d + 1
					inPlace := repsOf(node, in.Seq, raw)
					fresh := repsOf(node, in.Seq, append([]byte(nil), raw...))
					raw[j-1] = d
					if inPlace != fresh {
						evals = append(evals, "RECYCLED-BUFFER: Reports on a buffer whose content was replaced answers for the old content")
					}
				}
			}
		}
	}
	return
}

func repsOf(node *Node, seq uint64, raw []byte) string {
	rs, err := node.Plugin.Reports(context.Background(), seq, raw)
	node.Enc.Take()
	out := fmt.Sprint(err)
	for _, rp := range rs {
		out += "|" + hx(rp.ReportWithInfo.Report)
	}
	return out
}

func TestC02(t *testing.T) {
	em := NewEmitter(t, "C02")
	defer em.Close()
	names, raws, replayOnly := corpusInputs(t, "C02")
	earlier := "" // when set: what the same input evaluated to earlier in this process (added to the evaluations compared)
	run2 := func(src string, in JRound, w *roundWorld, r *Rng) JRoundImpl {
		// node A: an instance of a factory that has built an instance for ANOTHER configuration before (every field set,
		// none at its default); node B: the same configuration on a factory that has built nothing (a restarted process),
		// with staged results, other work in flight and another clock; node C: created thirty years later. The off-chain
		// configuration document is partial (fields absent, null, zero, negative: the documented defaults apply).
		var out c02Impl
		dh := fnv.New64a()
		dh.Write([]byte(in.Digest))
		dh.Write(seqBytes(in.Seq))
		doc := genOffchainDoc(NewRng(dh.Sum64()))
		procsNext = 0
		synctest.Test(t, func(t *testing.T) {
			withNode(t, NodeOpts{N: in.N, F: in.F, Digest: b32(in.Digest), OffchainConfig: doc}, func(a *Node) {
				withFreshNode(t, NodeOpts{N: in.N, F: in.F, Digest: b32(in.Digest), OracleID: 3, OffchainConfig: doc}, func(b *Node) {
					inFlightSalt[b] = 1
					if w != nil {
						dirtyNode(r, b, w)
					}
					// node b has seen OTHER observations from the same observers in this very sequence number before
					// (an abandoned epoch, an equivocating peer): validation of those must leave no trace
					for k, o := range in.Obs {
						alt := must(ocr2keepersv3.AutomationObservation{BlockHistory: ocr2keepers.BlockHistory{{Number: ocr2keepers.BlockNumber(1000 + k), Hash: [32]byte{byte(k + 1)}}}}.Encode())
						if k%2 == 1 && k > 0 && in.Obs[k-1].Len <= b.Info.Limits.MaxObservationLength {
							alt = unhx(in.Obs[k-1].Raw) // somebody else's observation under this observer's id
						}
						b.Plugin.ValidateObservation(context.Background(), ocr3types.OutcomeContext{SeqNr: in.Seq}, nil,
							ocr2plustypes.AttributedObservation{Observation: alt, Observer: commontypes.OracleID(o.Oracle)})
					}
					impl, e1, r1, x1 := evalRound(a, in, 4)
					_, e2, r2, x2 := evalRound(b, in, 4)
					out = c02Impl{JRoundImpl: impl, Evals: append(e1, e2...), Reports: append(r1, r2...), RepErr: append(x1, x2...)}
				})
			})
			// the oracle's clock: the same round evaluated by an instance whose clock reads three decades later (no
			// service is running at this point, so the jump costs nothing)
			time.Sleep(30 * 365 * 24 * time.Hour)
			withNode(t, NodeOpts{N: in.N, F: in.F, Digest: b32(in.Digest), OracleID: 5, OffchainConfig: doc}, func(c *Node) {
				inFlightSalt[c] = 2
				_, e3, r3, x3 := evalRoundX(c, in, 1, false)
				out.Evals = append(out.Evals, e3...)
				out.Reports = append(out.Reports, r3...)
				out.RepErr = append(out.RepErr, x3...)
			})
			if earlier != "" {
				out.Evals = append(out.Evals, earlier)
			}
		})
		em.Emit(src, in, out)
		return out.JRoundImpl
	}
	for i, raw := range raws {
		var sc c02ShuffleCase
		if err := gojson.Unmarshal(raw, &sc); err == nil && sc.Shuffle.Key != "" {
			em.Emit(names[i], sc, c02ShuffleRun(sc.Shuffle))
			continue
		}
		var in JRound
		if err := gojson.Unmarshal(raw, &in); err != nil {
			t.Fatalf("%s: %v", names[i], err)
		}
		run2(names[i], in, nil, nil)
	}
	if replayOnly {
		return
	}
	for _, in := range c02Edge() {
		run2("edge", in, nil, nil)
	}
	for _, in := range c01Edge() {
		// the message-size boundary is C01's business; of those witnesses only the two exactly at the limit are evaluated
		// here (each costs some sixty decodes of a megabyte)
		skip := false
		for _, o := range in.Obs {
			skip = skip || o.Len == ocr2keepersv3.MaxObservationLength-1 || o.Len == ocr2keepersv3.MaxObservationLength+1
		}
		if skip {
			continue
		}
		run2("edge-c01", in, nil, nil)
	}
	c02ShuffleCases(em, NewRng(seed()+2500), tierN(300, 6000))
	r := NewRng(seed() + 2000)
	n := tierN(150, 3000)
	// the first rounds are evaluated once more after every other round of the process: same input, same bytes
	type againT struct {
		in    JRound
		first string
	}
	var again []againT
	defer func() {
		for _, a := range again {
			earlier = a.first
			run2("gen-again", a.in, nil, nil)
		}
		earlier = ""
	}()
	for c := 0; c < n; c++ {
		w := newRoundWorld(r, roundOpts{maxPool: 25, byzantine: true, proposalsMax: 10, atLimit: atLimitRate() / 2, longTails: true})
		var prev *ocr2keepersv3.AutomationOutcome
		seq := uint64(r.Range(1, 1000))
		for k := 0; k < 2; k++ {
			w.prev = prev
			w.refillPools()
			gobs := w.genRoundObservations(em)
			rawsK := make([][]byte, len(gobs))
			oracles := make([]int, len(gobs))
			for i, g := range gobs {
				rawsK[i] = encodeObs(g)
				oracles[i] = g.oracle
			}
			in := buildRound(w.n, w.f, w.digest, seq, prev, rawsK, oracles)
			impl := run2("gen", in, w, r)
			if len(again) < 12 {
				again = append(again, againT{in, impl.Bytes + "|" + impl.Err})
			}
			if impl.Outcome != nil {
				o := fromJOutcome(*impl.Outcome)
				prev = &o
			}
			seq += 9
		}
	}
}

// c02Edge: the zero-hash quorum block repaired by "fix: coordinated block…".
func c02Edge() []JRound {
	r := NewRng(99)
	digest := genHash(r)
	h1, h2 := genHash(r), genHash(r)
	hist := []ocr2keepers.BlockKey{{Number: 10, Hash: [32]byte{}}, {Number: 7, Hash: h2}, {Number: 5, Hash: h1}}
	uid := genUpkeepID(r, false)
	res := genResult(r, uid, 5)
	prop := ocr2keepers.CoordinatedBlockProposal{UpkeepID: uid, Trigger: res.Trigger, WorkID: res.WorkID}
	var raws [][]byte
	for i := 0; i < 3; i++ {
		o := ocr2keepersv3.AutomationObservation{BlockHistory: hist}
		if i == 0 {
			o.UpkeepProposals = []ocr2keepers.CoordinatedBlockProposal{prop}
		}
		raws = append(raws, must(o.Encode()))
	}
	return []JRound{buildRound(4, 1, digest, 11, nil, raws, []int{0, 1, 2})}
}

var _ = commontypes.OracleID(0)
var _ = ocr2plustypes.AttributedObservation{}
