module verifextract

go 1.22
