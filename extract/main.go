// Fact extractor: parses /repo with go/ast (standard library only) and
// regenerates
//
//	<out>/facts.json                         constants, call-site expressions, if-conditions, lock discipline
//	<lean>/AutoVerif/Gen/Consts.lean         the constants as Lean `def`s (theorems are stated over these names)
//
// It is deliberately small: a constant evaluator for the integer / duration
// expressions the repository uses, and a printer for a few decision points.
package main

import (
	"bytes"
	"encoding/json"
	"fmt"
	"go/ast"
	"go/parser"
	"go/printer"
	"go/token"
	"math/big"
	"os"
	"path/filepath"
	"sort"
	"strings"
)

type constSpec struct {
	File string // relative to repo
	Name string // Go identifier
	Lean string // Lean identifier
}

var consts = []constSpec{
	{"pkg/v3/observation.go", "ObservationPerformablesLimit", "observationPerformablesLimit"},
	{"pkg/v3/observation.go", "ObservationLogRecoveryProposalsLimit", "observationLogRecoveryProposalsLimit"},
	{"pkg/v3/observation.go", "ObservationConditionalsProposalsLimit", "observationConditionalsProposalsLimit"},
	{"pkg/v3/observation.go", "ObservationBlockHistoryLimit", "observationBlockHistoryLimit"},
	{"pkg/v3/observation.go", "MaxObservationLength", "maxObservationLength"},
	{"pkg/v3/outcome.go", "OutcomeAgreedPerformablesLimit", "outcomeAgreedPerformablesLimit"},
	{"pkg/v3/outcome.go", "OutcomeSurfacedProposalsLimit", "outcomeSurfacedProposalsLimit"},
	{"pkg/v3/outcome.go", "OutcomeSurfacedProposalsRoundHistoryLimit", "outcomeSurfacedProposalsRoundHistoryLimit"},
	{"pkg/v3/outcome.go", "MaxOutcomeLength", "maxOutcomeLength"},
	{"pkg/v3/outcome.go", "MaxReportLength", "maxReportLength"},
	{"pkg/v3/outcome.go", "MaxReportCount", "maxReportCount"},
	{"pkg/v3/runner/runner.go", "WorkerBatchLimit", "workerBatchLimit"},
	{"pkg/v3/stores/proposal_queue.go", "proposalExpiry", "proposalExpiryNs"},
	{"pkg/v3/stores/metadata_store.go", "logRecoveryExpiry", "logRecoveryExpiryNs"},
	{"pkg/v3/stores/metadata_store.go", "conditionalExpiry", "conditionalExpiryNs"},
	{"pkg/v3/stores/result_store.go", "storeTTL", "storeTTLNs"},
	{"pkg/v3/stores/result_store.go", "gcInterval", "gcIntervalNs"},
	{"pkg/v3/stores/retry_queue.go", "DefaultExpiration", "retryDefaultExpirationNs"},
	{"pkg/v3/stores/retry_queue.go", "RetryInterval", "retryIntervalNs"},
	{"pkg/v3/flows/retry.go", "RetryBatchSize", "retryBatchSize"},
	{"pkg/v3/flows/recovery.go", "FinalRecoveryBatchSize", "finalRecoveryBatchSize"},
	{"pkg/v3/flows/conditional.go", "FinalConditionalBatchSize", "finalConditionalBatchSize"},
	{"pkg/v3/flows/logtrigger.go", "ObservationProcessLimit", "observationProcessLimitNs"},
	{"pkg/v3/service/recoverable.go", "PanicRestartWait", "panicRestartWaitNs"},
	{"pkg/v3/coordinator/coordinator.go", "cadence", "coordinatorCadenceNs"},
	{"pkg/v3/coordinator/coordinator.go", "defaultCacheClean", "coordinatorCacheCleanNs"},
	{"pkg/util/cache.go", "DefaultCacheExpiration", ""},
	{"pkg/v2/ocr.go", "ObservationUpkeepsLimit", "v2ObservationUpkeepsLimit"},
	{"pkg/v2/ocr.go", "ReportKeysLimit", "v2ReportKeysLimit"},
	{"pkg/v2/ocr.go", "MaxObservationLength", "v2MaxObservationLength"},
	{"tools/simulator/simulate/chain/history.go", "defaultHistoryDepth", "simHistoryDepth"},
	{"tools/simulator/simulate/ocr/report.go", "ReportTrackerBlockRange", "simReportTrackerBlockRange"},
}

// sites whose printed source is recorded (function bodies' call arguments and
// if-conditions); expectations over them live in extract/expect.json
type siteSpec struct {
	File string
	Func string // "Recv.Name" or "Name"
}

var sites = []siteSpec{
	// C02: the cone of Outcome / Reports / the orderings (kind "pkgcalls": no call into time, runtime, os, …)
	{"pkg/v3/plugin/ocr3.go", "getRandomKeySource"},
	{"pkg/v3/random/src.go", "GetRandomKeySource"},
	{"pkg/v3/random/src.go", "NewKeyedCryptoRandSource"},
	{"pkg/v3/random/src.go", "keyedCryptoRandSource.Int63"},
	{"pkg/v3/random/shuffler.go", "ShuffleString"},
	{"pkg/v3/plugin/coordinated_block_proposals.go", "coordinatedBlockProposals.add"},
	{"pkg/v3/plugin/performable.go", "newPerformables"},
	{"pkg/v3/plugin/coordinated_block_proposals.go", "newCoordinatedBlockProposals"},
	{"pkg/v3/observation.go", "DecodeAutomationObservation"},
	{"pkg/v3/observation.go", "validateAutomationObservation"},
	{"pkg/v3/observation.go", "validateCheckResult"},
	{"pkg/v3/outcome.go", "DecodeAutomationOutcome"},
	{"pkg/v3/outcome.go", "validateAutomationOutcome"},
	{"pkg/v3/outcome.go", "AutomationOutcome.Encode"},
	{"pkg/v3/plugin/ocr3.go", "ocr3Plugin.Outcome"},
	{"pkg/v3/plugin/ocr3.go", "ocr3Plugin.Observation"},
	{"pkg/v3/plugin/ocr3.go", "ocr3Plugin.ObservationQuorum"},
	{"pkg/v3/plugin/ocr3.go", "ocr3Plugin.Reports"},
	{"pkg/v3/plugin/ocr3.go", "ocr3Plugin.ShouldAcceptAttestedReport"},
	{"pkg/v3/plugin/ocr3.go", "ocr3Plugin.ShouldTransmitAcceptedReport"},
	{"pkg/v3/plugin/performable.go", "performables.add"},
	{"pkg/v3/plugin/performable.go", "performables.set"},
	{"pkg/v3/plugin/coordinated_block_proposals.go", "coordinatedBlockProposals.set"},
	{"pkg/v3/plugin/coordinated_block_proposals.go", "coordinatedBlockProposals.getLatestQuorumBlock"},
	{"pkg/v3/config/config.go", "ensureMinimumDefaults"},
	{"pkg/v3/coordinator/coordinator.go", "coordinator.Accept"},
	{"pkg/v3/coordinator/coordinator.go", "coordinator.ShouldTransmit"},
	{"pkg/v3/coordinator/coordinator.go", "coordinator.ShouldProcess"},
	{"pkg/v3/coordinator/coordinator.go", "coordinator.checkEvents"},
	{"pkg/v3/stores/result_store.go", "resultStore.Add"},
	{"pkg/v3/stores/proposal_queue.go", "proposalQueue.Enqueue"},
	{"pkg/v3/stores/retry_queue.go", "retryQueue.Enqueue"},
	{"pkg/v3/stores/retry_queue.go", "retryQueue.Dequeue"},
	{"pkg/v3/plugin/factory.go", "pluginFactory.NewReportingPlugin"},
	{"pkg/v2/ocr.go", "ocrPlugin.Report"},
	{"pkg/v2/ocr.go", "ocrPlugin.Observation"},
	{"tools/simulator/util/sort.go", "SortedKeyMap.Keys"},
	{"tools/simulator/telemetry/progress.go", "ProgressTelemetry.checkProgress"},
	{"tools/simulator/telemetry/progress.go", "ProgressTelemetry.track"},
	{"cmd/simulator/main.go", "main"},
	{"tools/simulator/config/simulation.go", "SimulationPlan.Encode"},
	{"tools/simulator/config/simulation.go", "DecodeSimulationPlan"},
	{"tools/simulator/node/statistics.go", "findMedianAndSplitData"},
	{"tools/simulator/node/stats.go", "newUpkeepStatsBuilder"},
	{"tools/simulator/simulate/loader/ocr3transmit.go", "OCR3TransmitLoader.Load"},
	{"pkg/util/worker.go", "NewWorkerGroup"},
	{"pkg/util/worker.go", "WorkerGroup.Do"},
	{"pkg/util/worker.go", "WorkerGroup.Stop"},
	{"pkg/util/worker.go", "WorkerGroup.runQueuing"},
	{"pkg/util/worker.go", "WorkerGroup.doJob"},
	{"pkg/util/worker.go", "worker.Do"},
	{"pkg/util/worker.go", "WorkerGroup.storeResult"},
	{"pkg/util/worker.go", "RunJobs"},
	{"pkg/util/worker.go", "runWorkItem"},
	{"pkg/v3/service/recoverable.go", "NewRecoverer"},
	{"pkg/v3/service/recoverable.go", "recoverer.Close"},
	{"pkg/v3/service/recoverable.go", "recoverer.serviceStart"},
	{"pkg/v3/service/recoverable.go", "recoverer.recoverableStart"},
	{"pkg/v3/tickers/time.go", "timeTicker.Start"},
	{"pkg/v3/coordinator/coordinator.go", "coordinator.safeCheckEvents"},
	{"pkg/v3/coordinator/coordinator.go", "coordinator.FilterProposals"},
	{"pkg/v3/coordinator/coordinator.go", "coordinator.PreProcess"},
	{"pkg/v3/coordinator/coordinator.go", "coordinator.FilterResults"},
	{"pkg/v3/coordinator/coordinator.go", "coordinator.visitedID"},
	{"pkg/v3/coordinator/coordinator.go", "coordinator.run"},
	{"pkg/util/cache.go", "Cache.ClearExpired"},
	{"pkg/v3/plugin/hooks/add_from_staging.go", "AddFromStagingHook.RunHook"},
	{"pkg/v3/plugin/hooks/add_from_staging.go", "AddFromStagingHook.addByPercentageExceeded"},
	{"pkg/v3/plugin/hooks/add_from_staging.go", "stagedResultSorter.updateShuffledIDs"},
	{"pkg/v3/stores/metadata_store.go", "metadataStore.SetBlockHistory"},
	{"pkg/v3/runner/runner.go", "NewRunner"},
	{"pkg/v3/plugin/plugin.go", "newPlugin"},
	{"pkg/v3/plugin/delegate.go", "NewDelegate"},
	{"tools/simulator/simulate/hydrator.go", "HydrateConfig"},
	{"pkg/v3/runner/runner.go", "Runner.wrapWorkerFunc"},
	{"pkg/v2/encode.go", "encode"},
	{"tools/simulator/simulate/ocr/report.go", "ReportTracker.run"},
	{"pkg/v2/runner/runner.go", "NewRunner"},
	{"pkg/v3/plugin/hooks/add_log_proposals.go", "AddLogProposalsHook.RunHook"},
	{"pkg/v3/plugin/hooks/add_conditional_proposals.go", "AddConditionalProposalsHook.RunHook"},
	{"pkg/v3/plugin/hooks/add_block_history.go", "AddBlockHistoryHook.RunHook"},
	{"pkg/v3/observation.go", "validateAutomationObservation"},
	{"pkg/v3/observation.go", "validateCheckResult"},
	{"pkg/v3/observation.go", "validateUpkeepProposal"},
	{"pkg/v3/observation.go", "validateTriggerExtensionType"},
	{"pkg/v3/observation.go", "DecodeAutomationObservation"},
	{"pkg/v3/observation.go", "unmarshalPeerMessage"},
	{"pkg/v3/outcome.go", "validateAutomationOutcome"},
	{"pkg/v3/outcome.go", "DecodeAutomationOutcome"},
	{"pkg/v2/shuffle.go", "filterAndDedupe"},
	{"pkg/v2/observation.go", "ObservationsToUpkeepKeys"},
	{"pkg/v2/observation.go", "Observation.Validate"},
	{"pkg/v2/encoding/basic.go", "BasicEncoder.GetMedian"},
	{"pkg/v2/encoding/basic.go", "BasicEncoder.After"},
	{"pkg/v2/encoding/basic.go", "BasicEncoder.Increment"},
	{"pkg/v2/encoding/basic.go", "BasicEncoder.SplitUpkeepKey"},
	{"pkg/v2/encode.go", "limitedLengthEncode"},
	{"pkg/v2/observer/polling/observer.go", "PollingObserver.Observe"},
	{"pkg/v2/observer/polling/observer.go", "PollingObserver.processLatestHead"},
	{"pkg/v2/coordinator/coordinator.go", "idBlocker.shouldUpdate"},
	{"pkg/v2/coordinator/coordinator.go", "reportCoordinator.checkLogs"},
	{"pkg/v2/coordinator/coordinator.go", "reportCoordinator.IsPending"},
	{"pkg/v2/coordinator/coordinator.go", "reportCoordinator.Accept"},
	{"pkg/v2/coordinator/coordinator.go", "reportCoordinator.updateIdBlock"},
	{"pkg/v2/coordinator/coordinator.go", "NewReportCoordinator"},
	{"pkg/v3/stores/retry_queue.go", "retryQueueRecord.elapsed"},
	{"pkg/v3/stores/retry_queue.go", "retryQueueRecord.expired"},
	{"pkg/v3/postprocessors/retry.go", "retryablePostProcessor.PostProcess"},
	{"pkg/v3/postprocessors/ineligible.go", "ineligiblePostProcessor.PostProcess"},
	{"pkg/v3/postprocessors/metadata.go", "addProposalToMetadataStore.PostProcess"},
	{"pkg/v3/observer.go", "Observer.Process"},
	{"pkg/v3/stores/result_store.go", "resultStore.viewResults"},
	{"pkg/v3/stores/result_store.go", "resultStore.gc"},
	{"pkg/v3/stores/result_store.go", "resultStore.Start"},
	{"pkg/v3/postprocessors/eligible.go", "eligiblePostProcessor.PostProcess"},
	{"pkg/v3/plugin/hooks/remove_from_staging.go", "RemoveFromStagingHook.RunHook"},
	{"pkg/v3/runner/runner.go", "Runner.parallelCheck"},
	{"pkg/v3/runner/runner.go", "Runner.wrapAggregate"},
	{"pkg/util/cache.go", "Cache.Get"},
	{"pkg/util/cache.go", "Cache.Set"},
	{"internal/util/array.go", "Unflatten"},
	{"tools/simulator/util/sort.go", "SortedKeyMap.Set"},
	{"tools/simulator/simulate/loader/ocr3transmit.go", "OCR3TransmitLoader.Transmit"},
	{"tools/simulator/simulate/ocr/report.go", "createPluginTransmitEvents"},
	{"tools/simulator/simulate/ocr/report.go", "ReportTracker.GetLatestEvents"},
	{"tools/simulator/simulate/ocr/report.go", "ReportTracker.updateBlock"},
	{"tools/simulator/simulate/chain/history.go", "BlockHistoryTracker.run"},
	{"tools/simulator/simulate/chain/history.go", "BlockHistoryTracker.broadcast"},
	{"pkg/v3/stores/metadata_store.go", "orderedMap.Keys"},
	{"pkg/v3/stores/metadata_store.go", "orderedMap.Delete"},
	{"pkg/v3/stores/metadata_store.go", "orderedMap.Add"},
	{"pkg/v3/stores/metadata_store.go", "expiringRecord.expired"},
	{"pkg/v3/stores/metadata_store.go", "metadataStore.viewLogRecoveryProposal"},
	{"pkg/v3/stores/metadata_store.go", "metadataStore.viewConditionalProposal"},
	{"pkg/v3/stores/proposal_queue.go", "proposalQueueRecord.expired"},
	{"pkg/v3/stores/proposal_queue.go", "proposalQueue.Dequeue"},
	{"pkg/v3/plugin/hooks/remove_from_metadata.go", "RemoveFromMetadataHook.RunHook"},
	{"pkg/v3/plugin/hooks/add_to_proposalq.go", "AddToProposalQHook.RunHook"},
}

// types whose methods are checked for lock discipline: every method that
// mentions one of the guarded fields must call <mutex>.Lock or RLock first.
type lockSpec struct {
	File    string
	Type    string
	Mutex   string   // selector text, e.g. "lock" or "mu"
	Guarded []string // field names
}

var locks = []lockSpec{
	{"pkg/v3/stores/result_store.go", "resultStore", "lock", []string{"data"}},
	{"pkg/v3/stores/proposal_queue.go", "proposalQueue", "lock", []string{"records"}},
	{"pkg/v3/stores/retry_queue.go", "retryQueue", "lock", []string{"records"}},
	{"pkg/v3/stores/metadata_store.go", "metadataStore", "blockHistoryMutex", []string{"blockHistory"}},
	{"pkg/v3/stores/metadata_store.go", "metadataStore", "conditionalMutex", []string{"conditionalProposals"}},
	{"pkg/v3/stores/metadata_store.go", "metadataStore", "logRecoveryMutex", []string{"logRecoveryProposals"}},
	{"pkg/util/cache.go", "Cache", "mu", []string{"data"}},
	{"tools/simulator/simulate/loader/ocr3transmit.go", "OCR3TransmitLoader", "mu", []string{"transmitted", "queue"}},
	{"pkg/v3/coordinator/coordinator.go", "coordinator", "mu", nil},
}

// ---------------------------------------------------------------- decision expressions translated to Lean
//
// exprSpec selects ONE boolean (or arithmetic) expression of the source and translates it into a Lean definition
// `Gen.Src.<Lean>`. Leaves of the expression (identifiers, selectors, index expressions, len(...) calls, method calls)
// are looked up by their printed text in Vars and become parameters of the definition. Props files prove that the
// hand-written model's decision function equals this regenerated definition, so a changed operator or operand in the
// code breaks a theorem on the next run.
type exprSpec struct {
	File  string      `json:"file"`
	Func  string      `json:"func"`
	Kind  string      `json:"kind"`  // "cond" (if/for conditions, in source order), "assign" (right-hand sides / return values)
	Match string      `json:"match"` // the selected expression is the first one of that kind whose printed text contains Match
	Lean  string      `json:"lean"`  // name of the generated definition: AutoVerif.Gen.Src.<lean>
	Vars  [][3]string `json:"vars"`  // {go text of a leaf, lean parameter name, lean type Nat|Int|Bool|String}
	Marks []string    `json:"marks"` // kind "tree": an effect statement whose text contains one of these counts as an exit
	Nth   int         `json:"nth"`   // kind "fields": which composite literal containing Match (1-based, source order; 0 = first)
}

var exprs []exprSpec // loaded from extract/exprs.d/*.json (one file per property)

func loadExprs(dir string) {
	files, _ := filepath.Glob(filepath.Join(dir, "*.json"))
	sort.Strings(files)
	for _, f := range files {
		b, err := os.ReadFile(f)
		if err != nil {
			continue
		}
		var list []exprSpec
		if err := json.Unmarshal(b, &list); err != nil {
			fmt.Fprintf(os.Stderr, "extract: %s: %v\n", f, err)
			os.Exit(2)
		}
		exprs = append(exprs, list...)
	}
}

func leanOp(t token.Token) (string, bool) {
	switch t {
	case token.LAND:
		return "&&", true
	case token.LOR:
		return "||", true
	}
	return "", false
}

// trExpr translates e; returns lean text and whether the result is a Bool (else numeric)
// occOf, when set (tree translation), gives the 1-based occurrence number of a leaf expression among the expressions with
// the same printed text in the translated block, in source order; a var named "<text>#<n>" then applies to that
// occurrence only (`err != nil` after a re-assignment of err is another condition than the first one)
var occOf func(e ast.Expr, txt string) int

func trExpr(fset *token.FileSet, e ast.Expr, vars map[string][2]string, used map[string]bool) (string, bool, error) {
	txt := printNode(fset, e)
	if occOf != nil {
		if n := occOf(e, txt); n > 0 {
			if v, ok := vars[fmt.Sprintf("%s#%d", txt, n)]; ok {
				used[txt] = true
				return v[0], v[1] == "Bool", nil
			}
		}
	}
	if v, ok := vars[txt]; ok {
		used[txt] = true
		return v[0], v[1] == "Bool", nil
	}
	switch x := e.(type) {
	case *ast.Ident:
		if x.Name == "true" || x.Name == "false" {
			return x.Name, true, nil
		}
	case *ast.ParenExpr:
		s, b, err := trExpr(fset, x.X, vars, used)
		return "(" + s + ")", b, err
	case *ast.BasicLit:
		if x.Kind == token.INT {
			return strings.ReplaceAll(x.Value, "_", ""), false, nil
		}
	case *ast.UnaryExpr:
		if x.Op == token.NOT {
			s, _, err := trExpr(fset, x.X, vars, used)
			return "(!" + s + ")", true, err
		}
	case *ast.CallExpr:
		// numeric conversions are transparent in the unbounded model (wrap-around is proved separately where it matters)
		if id, ok := x.Fun.(*ast.Ident); ok && len(x.Args) == 1 {
			switch id.Name {
			case "int", "int64", "uint64", "uint32", "int32", "uint":
				return trExpr(fset, x.Args[0], vars, used)
			}
		}
	case *ast.BinaryExpr:
		a, _, err := trExpr(fset, x.X, vars, used)
		if err != nil {
			return "", false, err
		}
		b, _, err := trExpr(fset, x.Y, vars, used)
		if err != nil {
			return "", false, err
		}
		if op, ok := leanOp(x.Op); ok {
			return "(" + a + " " + op + " " + b + ")", true, nil
		}
		switch x.Op {
		case token.EQL:
			return "decide (" + a + " = " + b + ")", true, nil
		case token.NEQ:
			return "decide (" + a + " ≠ " + b + ")", true, nil
		case token.LSS:
			return "decide (" + a + " < " + b + ")", true, nil
		case token.LEQ:
			return "decide (" + a + " ≤ " + b + ")", true, nil
		case token.GTR:
			return "decide (" + a + " > " + b + ")", true, nil
		case token.GEQ:
			return "decide (" + a + " ≥ " + b + ")", true, nil
		case token.ADD:
			return "(" + a + " + " + b + ")", false, nil
		case token.MUL:
			return "(" + a + " * " + b + ")", false, nil
		}
	}
	return "", false, fmt.Errorf("untranslatable sub-expression `%s`", txt)
}

func funcDecl(fi *fileInfo, name string) *ast.FuncDecl {
	for _, d := range fi.f.Decls {
		fd, ok := d.(*ast.FuncDecl)
		if !ok || fd.Body == nil {
			continue
		}
		n := fd.Name.Name
		if r := recvName(fd); r != "" {
			n = r + "." + n
		}
		if n == name {
			return fd
		}
	}
	return nil
}

func translateExprs(repo string) (string, map[string]string) {
	var b strings.Builder
	errs := map[string]string{}
	b.WriteString("\n/-! decision expressions translated from the source (see extract/main.go `exprs`) -/\nnamespace Src\n\n")
	for _, sp := range exprs {
		fi, err := load(repo, sp.File)
		if err != nil {
			errs[sp.Lean] = err.Error()
			continue
		}
		fd := funcDecl(fi, sp.Func)
		if fd == nil {
			errs[sp.Lean] = "function not found: " + sp.Func
			continue
		}
		if sp.Kind == "tree" {
			text, err := translateTree(fi, fd, sp)
			if err != nil {
				errs[sp.Lean] = err.Error()
				params := ""
				for _, v := range sp.Vars {
					if v[2] != "const" {
						params += fmt.Sprintf(" (%s : %s)", v[1], v[2])
					}
				}
				b.WriteString(fmt.Sprintf("/-- %s : %s — %s -/\ndef %s%s : Option Nat := none\n\n", sp.File, sp.Func, strings.ReplaceAll(err.Error(), "-/", "- /"), sp.Lean, params))
				continue
			}
			b.WriteString(text)
			continue
		}
		if sp.Kind == "fields" {
			text, err := translateFields(fi, fd, sp)
			if err != nil {
				errs[sp.Lean] = err.Error()
				b.WriteString(fmt.Sprintf("/-- %s : %s — %s -/\ndef %sFields : Option (List String) := none\n\n", sp.File, sp.Func, strings.ReplaceAll(err.Error(), "-/", "- /"), sp.Lean))
				continue
			}
			b.WriteString(text)
			continue
		}
		var cands []ast.Expr
		ast.Inspect(fd.Body, func(n ast.Node) bool {
			switch x := n.(type) {
			case *ast.IfStmt:
				if sp.Kind == "cond" {
					cands = append(cands, x.Cond)
				}
			case *ast.ForStmt:
				if sp.Kind == "cond" && x.Cond != nil {
					cands = append(cands, x.Cond)
				}
			case *ast.AssignStmt:
				if sp.Kind == "assign" {
					cands = append(cands, x.Rhs...)
				}
			case *ast.ReturnStmt:
				if sp.Kind == "assign" {
					cands = append(cands, x.Results...)
				}
			}
			return true
		})
		norm := func(x string) string { return strings.Join(strings.Fields(x), "") }
		var pick ast.Expr
		for _, c := range cands {
			if strings.Contains(norm(printNode(fi.fset, c)), norm(sp.Match)) {
				pick = c
				break
			}
		}
		vars := map[string][2]string{}
		for _, v := range sp.Vars {
			vars[v[0]] = [2]string{v[1], v[2]}
		}
		params := ""
		for _, v := range sp.Vars {
			if v[2] != "const" {
				params += fmt.Sprintf(" (%s : %s)", v[1], v[2])
			}
		}
		if pick == nil {
			errs[sp.Lean] = "no expression of kind " + sp.Kind + " contains `" + sp.Match + "`"
			// emit a definition that cannot match the model, so that the tie theorem fails loudly
			b.WriteString(fmt.Sprintf("/-- %s : %s — EXPRESSION NOT FOUND IN SOURCE -/\ndef %s%s : Option Bool := none\n\n", sp.File, sp.Func, sp.Lean, params))
			continue
		}
		used := map[string]bool{}
		lean, isBool, err := trExpr(fi.fset, pick, vars, used)
		if err != nil {
			errs[sp.Lean] = err.Error()
			b.WriteString(fmt.Sprintf("/-- %s : %s — %s -/\ndef %s%s : Option Bool := none\n\n", sp.File, sp.Func, strings.ReplaceAll(err.Error(), "-/", "- /"), sp.Lean, params))
			continue
		}
		ty := "Nat"
		if isBool {
			ty = "Bool"
		}
		b.WriteString(fmt.Sprintf("/-- %s : %s\n    `%s` -/\ndef %s%s : %s :=\n  %s\n\n", sp.File, sp.Func, strings.ReplaceAll(printNode(fi.fset, pick), "-/", "- /"), sp.Lean, params, ty, lean))
	}
	b.WriteString("end Src\n")
	return b.String(), errs
}

// ---------------------------------------------------------------- struct literals translated to Lean
//
// kind "fields": WHAT a function writes. The Nth composite literal of the function (source order) whose printed text
// contains Match is translated field by field: `def <lean>Fields : List String` lists the keys in source order (a field
// added to or dropped from the literal changes it) and, per key, `def <lean>_<key> (params) : Bool|Nat` is the translated
// value (leaves through Vars, like expressions). A Props file proves that the record the model writes at that point has
// exactly these field values, all other fields of the model's record keeping their zero value.
func translateFields(fi *fileInfo, fd *ast.FuncDecl, sp exprSpec) (string, error) {
	norm := func(x string) string { return strings.Join(strings.Fields(x), "") }
	var lits []*ast.CompositeLit
	ast.Inspect(fd.Body, func(n ast.Node) bool {
		if cl, ok := n.(*ast.CompositeLit); ok && strings.Contains(norm(printNode(fi.fset, cl)), norm(sp.Match)) {
			lits = append(lits, cl)
		}
		return true
	})
	nth := sp.Nth
	if nth <= 0 {
		nth = 1
	}
	if len(lits) < nth {
		return "", fmt.Errorf("composite literal #%d containing `%s` not found (%d found)", nth, sp.Match, len(lits))
	}
	cl := lits[nth-1]
	vars := map[string][2]string{}
	params := ""
	for _, v := range sp.Vars {
		vars[v[0]] = [2]string{v[1], v[2]}
		if v[2] != "const" && v[2] != "opaque" {
			params += fmt.Sprintf(" (%s : %s)", v[1], v[2])
		}
	}
	var b strings.Builder
	var keys []string
	pos := fi.fset.Position(cl.Pos())
	for _, el := range cl.Elts {
		kv, ok := el.(*ast.KeyValueExpr)
		if !ok {
			return "", fmt.Errorf("literal at line %d has an element without a key", pos.Line)
		}
		key := printNode(fi.fset, kv.Key)
		if v, ok := vars[printNode(fi.fset, kv.Value)]; ok && v[1] == "opaque" {
			// a value the Lean side has no type for in Gen/Consts.lean (a whole struct, a payload): the key is listed with
			// the parameter name it must be fed from, no definition is generated
			keys = append(keys, key+"="+v[0])
			continue
		}
		used := map[string]bool{}
		lean, isBool, err := trExpr(fi.fset, kv.Value, vars, used)
		if err != nil {
			return "", fmt.Errorf("field %s of the literal at line %d: %v", key, pos.Line, err)
		}
		ty := "Nat"
		if isBool {
			ty = "Bool"
		} else if v, ok := vars[printNode(fi.fset, kv.Value)]; ok && v[1] != "const" {
			ty = v[1]
		}
		keys = append(keys, key)
		b.WriteString(fmt.Sprintf("/-- %s : %s — line %d, field `%s: %s` of the %s literal -/\ndef %s_%s%s : %s :=\n  %s\n\n",
			sp.File, sp.Func, fi.fset.Position(kv.Pos()).Line, key, strings.ReplaceAll(printNode(fi.fset, kv.Value), "-/", "- /"),
			printNode(fi.fset, cl.Type), sp.Lean, key, params, ty, lean))
	}
	q := make([]string, len(keys))
	for i, k := range keys {
		q[i] = fmt.Sprintf("%q", k)
	}
	b.WriteString(fmt.Sprintf("/-- %s : %s — the keys of the %s literal at line %d, in source order -/\ndef %sFields : List String :=\n  [%s]\n\n",
		sp.File, sp.Func, printNode(fi.fset, cl.Type), pos.Line, sp.Lean, strings.Join(q, ", ")))
	return b.String(), nil
}

// ---------------------------------------------------------------- decision trees translated to Lean
//
// kind "tree": the CONTROL STRUCTURE of a function body (or, with Match, of the body of the first for/range statement
// whose header contains Match) is translated into a nested Lean `if … then … else …` whose leaves are natural numbers:
// leaf i (i >= 1) is the i-th terminating statement (return / continue / break) of that block in SOURCE order, leaf 0 is
// "fell off the end". Conditions are translated like expressions (Vars; a var of type "const" is a literal, not a
// parameter). Statements without control flow (calls, assignments, declarations, defers, nested loops) are effects and
// are skipped: the tree says WHICH exit is taken under which conditions, in which order the conditions are tested, and
// nothing else. A Props file proves that the model's decision function takes the corresponding exits.
func translateTree(fi *fileInfo, fd *ast.FuncDecl, sp exprSpec) (string, error) {
	norm := func(x string) string { return strings.Join(strings.Fields(x), "") }
	var block *ast.BlockStmt = fd.Body
	if sp.Match != "" {
		block = nil
		ast.Inspect(fd.Body, func(n ast.Node) bool {
			if block != nil {
				return false
			}
			switch x := n.(type) {
			case *ast.ForStmt:
				hdr := printNode(fi.fset, &ast.ForStmt{Init: x.Init, Cond: x.Cond, Post: x.Post, Body: &ast.BlockStmt{}})
				if strings.Contains(norm(hdr), norm(sp.Match)) {
					block = x.Body
				}
			case *ast.RangeStmt:
				hdr := printNode(fi.fset, &ast.RangeStmt{Key: x.Key, Value: x.Value, Tok: x.Tok, X: x.X, Body: &ast.BlockStmt{}})
				if strings.Contains(norm(hdr), norm(sp.Match)) {
					block = x.Body
				}
			}
			return true
		})
		if block == nil {
			return "", fmt.Errorf("no for/range statement whose header contains `%s`", sp.Match)
		}
	}
	// number the terminating statements of the block in source order (nested function literals and nested loops excluded
	// for continue/break, which would refer to the inner loop)
	isMarked := func(st ast.Stmt) bool {
		t := norm(printNode(fi.fset, st))
		for _, mk := range sp.Marks {
			if mk != "" && strings.Contains(t, norm(mk)) {
				return true
			}
		}
		return false
	}
	leaf := map[token.Pos]int{}
	type retT struct {
		n int
		r *ast.ReturnStmt
	}
	var rets []retT
	var kinds []int // per exit: 1 return, 2 continue, 3 break, 4 marked effect
	var markIdx [][2]int
	whichMark := func(st ast.Stmt) int {
		t := norm(printNode(fi.fset, st))
		for i, mk := range sp.Marks {
			if mk != "" && strings.Contains(t, norm(mk)) {
				return i + 1
			}
		}
		return 0
	}
	var leafDoc []string
	var number func(n ast.Node, inLoop bool)
	number = func(n ast.Node, inLoop bool) {
		ast.Inspect(n, func(m ast.Node) bool {
			switch x := m.(type) {
			case *ast.FuncLit:
				return false
			case *ast.ForStmt:
				if x.Body != block {
					number(x.Body, true)
					return false
				}
			case *ast.RangeStmt:
				if x.Body != block {
					number(x.Body, true)
					return false
				}
			case *ast.ReturnStmt:
				leaf[x.Pos()] = len(leaf) + 1
				kinds = append(kinds, 1)
				rets = append(rets, retT{len(leaf), x})
				leafDoc = append(leafDoc, fmt.Sprintf("%d = line %d `%s`", len(leaf), fi.fset.Position(x.Pos()).Line, strings.ReplaceAll(printNode(fi.fset, x), "-/", "- /")))
			case *ast.BranchStmt:
				if !inLoop && (x.Tok == token.CONTINUE || x.Tok == token.BREAK) {
					leaf[x.Pos()] = len(leaf) + 1
					if x.Tok == token.CONTINUE {
						kinds = append(kinds, 2)
					} else {
						kinds = append(kinds, 3)
					}
					leafDoc = append(leafDoc, fmt.Sprintf("%d = line %d `%s`", len(leaf), fi.fset.Position(x.Pos()).Line, x.Tok.String()))
				}
			case *ast.ExprStmt, *ast.AssignStmt, *ast.IncDecStmt:
				if st, ok := m.(ast.Stmt); ok && isMarked(st) {
					leaf[st.Pos()] = len(leaf) + 1
					kinds = append(kinds, 4)
					markIdx = append(markIdx, [2]int{len(leaf), whichMark(st)})
					leafDoc = append(leafDoc, fmt.Sprintf("%d = line %d reached `%s`", len(leaf), fi.fset.Position(st.Pos()).Line, strings.ReplaceAll(strings.SplitN(printNode(fi.fset, st), "\n", 2)[0], "-/", "- /")))
				}
			}
			return true
		})
	}
	number(block, false)
	vars := map[string][2]string{}
	indexed := map[string]bool{} // printed texts that have "#n" variants
	for _, v := range sp.Vars {
		vars[v[0]] = [2]string{v[1], v[2]}
		if i := strings.LastIndex(v[0], "#"); i > 0 {
			indexed[v[0][:i]] = true
		}
	}
	occ := map[token.Pos]int{}
	if len(indexed) > 0 {
		count := map[string]int{}
		ast.Inspect(block, func(m ast.Node) bool {
			if e, ok := m.(ast.Expr); ok {
				t := printNode(fi.fset, e)
				if indexed[t] {
					count[t]++
					occ[e.Pos()] = count[t]
					return false
				}
			}
			return true
		})
	}
	occOf = func(e ast.Expr, txt string) int {
		if !indexed[txt] || !e.Pos().IsValid() {
			return 0
		}
		return occ[e.Pos()]
	}
	defer func() { occOf = nil }()
	used := map[string]bool{}
	cond := func(e ast.Expr) (string, error) {
		c, isBool, err := trExpr(fi.fset, e, vars, used)
		if err != nil {
			return "", err
		}
		if !isBool {
			return "", fmt.Errorf("condition `%s` is not boolean", printNode(fi.fset, e))
		}
		return c, nil
	}
	nodes := 0
	var seq func(stmts []ast.Stmt, k func() (string, error)) (string, error)
	seq = func(stmts []ast.Stmt, k func() (string, error)) (string, error) {
		nodes++
		if nodes > 4000 {
			return "", fmt.Errorf("decision tree too large")
		}
		if len(stmts) == 0 {
			return k()
		}
		rest := func() (string, error) { return seq(stmts[1:], k) }
		switch x := stmts[0].(type) {
		case *ast.ReturnStmt:
			return fmt.Sprint(leaf[x.Pos()]), nil
		case *ast.BranchStmt:
			if n, ok := leaf[x.Pos()]; ok {
				return fmt.Sprint(n), nil
			}
			return "", fmt.Errorf("unsupported branch statement `%s`", printNode(fi.fset, x))
		case *ast.BlockStmt:
			return seq(x.List, rest)
		case *ast.IfStmt:
			c, err := cond(x.Cond)
			if err != nil {
				return "", err
			}
			th, err := seq(x.Body.List, rest)
			if err != nil {
				return "", err
			}
			var el string
			switch e := x.Else.(type) {
			case nil:
				el, err = rest()
			case *ast.BlockStmt:
				el, err = seq(e.List, rest)
			default:
				el, err = seq([]ast.Stmt{e}, rest)
			}
			if err != nil {
				return "", err
			}
			return fmt.Sprintf("(if %s then %s else %s)", c, th, el), nil
		case *ast.SwitchStmt:
			var arms []*ast.CaseClause
			var def *ast.CaseClause
			for _, cl := range x.Body.List {
				cc := cl.(*ast.CaseClause)
				if cc.List == nil {
					def = cc
				} else {
					arms = append(arms, cc)
				}
				for _, st := range cc.Body {
					if br, ok := st.(*ast.BranchStmt); ok && br.Tok == token.FALLTHROUGH {
						return "", fmt.Errorf("fallthrough is not supported")
					}
				}
			}
			var build func(i int) (string, error)
			build = func(i int) (string, error) {
				if i == len(arms) {
					if def != nil {
						return seq(def.Body, rest)
					}
					return rest()
				}
				var cs []string
				for _, ce := range arms[i].List {
					var e ast.Expr = ce
					if x.Tag != nil {
						e = &ast.BinaryExpr{X: x.Tag, Op: token.EQL, Y: ce}
					}
					c, err := cond(e)
					if err != nil {
						return "", err
					}
					cs = append(cs, c)
				}
				th, err := seq(arms[i].Body, rest)
				if err != nil {
					return "", err
				}
				el, err := build(i + 1)
				if err != nil {
					return "", err
				}
				return fmt.Sprintf("(if %s then %s else %s)", strings.Join(cs, " || "), th, el), nil
			}
			return build(0)
		case *ast.ExprStmt, *ast.AssignStmt, *ast.IncDecStmt, *ast.DeclStmt, *ast.DeferStmt, *ast.GoStmt, *ast.ForStmt, *ast.RangeStmt, *ast.EmptyStmt:
			if n, ok := leaf[stmts[0].Pos()]; ok {
				return fmt.Sprint(n), nil // a marked effect: reaching it is recorded as an exit (what follows is not looked at)
			}
			return rest() // an effect: no control flow out of the block
		}
		return "", fmt.Errorf("unsupported statement `%s`", strings.SplitN(printNode(fi.fset, stmts[0]), "\n", 2)[0])
	}
	body, err := seq(block.List, func() (string, error) { return "0", nil })
	if err != nil {
		return "", err
	}
	params := ""
	for _, v := range sp.Vars {
		if v[2] != "const" {
			params += fmt.Sprintf(" (%s : %s)", v[1], v[2])
		}
	}
	where := sp.Func
	if sp.Match != "" {
		where += " — body of the loop `" + sp.Match + "`"
	}
	out := fmt.Sprintf("/-- %s : %s — decision tree; exits in source order: 0 = end of the block; %s -/\ndef %s%s : Nat :=\n  %s\n\n",
		sp.File, where, strings.Join(leafDoc, "; "), sp.Lean, params, body)
	// how each exit leaves the block
	if len(kinds) > 0 {
		var arms []string
		for i, k := range kinds {
			arms = append(arms, fmt.Sprintf("  | %d => %d", i+1, k))
		}
		out += fmt.Sprintf("/-- how each exit of `%s` leaves the block: 1 = return, 2 = continue, 3 = break, 4 = a marked effect was reached, 0 = end of the block -/\ndef %sKind (exit : Nat) : Nat :=\n  match exit with\n%s\n  | _ => 0\n\n", sp.Lean, sp.Lean, strings.Join(arms, "\n"))
	}
	// whether the i-th result of each return statement is the literal nil (for functions returning (value, error) …)
	if len(rets) > 0 {
		maxRes := 0
		for _, rt := range rets {
			if len(rt.r.Results) > maxRes {
				maxRes = len(rt.r.Results)
			}
		}
		for i := 0; i < maxRes; i++ {
			var arms []string
			for _, rt := range rets {
				isNil := "false"
				if i < len(rt.r.Results) {
					if id, ok := rt.r.Results[i].(*ast.Ident); ok && id.Name == "nil" {
						isNil = "true"
					}
				}
				arms = append(arms, fmt.Sprintf("  | %d => %s", rt.n, isNil))
			}
			out += fmt.Sprintf("/-- whether result %d of the return statement at each exit of `%s` is the literal `nil` -/\ndef %sNil%d (exit : Nat) : Bool :=\n  match exit with\n%s\n  | _ => false\n\n", i+1, sp.Lean, sp.Lean, i+1, strings.Join(arms, "\n"))
		}
	}
	// the translatable i-th results of multi-result returns
	if len(rets) > 0 {
		maxRes := 0
		for _, rt := range rets {
			if len(rt.r.Results) > maxRes {
				maxRes = len(rt.r.Results)
			}
		}
		for i := 0; i < maxRes && maxRes > 1; i++ {
			var arms []string
			okAll, anyBool, anyNum := true, false, false
			for _, rt := range rets {
				if i >= len(rt.r.Results) {
					okAll = false
					break
				}
				v, isBool, err := trExpr(fi.fset, rt.r.Results[i], vars, used)
				if err != nil {
					okAll = false
					break
				}
				if isBool {
					anyBool = true
				} else {
					anyNum = true
				}
				arms = append(arms, fmt.Sprintf("  | %d => %s", rt.n, v))
			}
			if okAll && anyBool != anyNum {
				ty, dflt := "Bool", "true"
				if anyNum {
					ty, dflt = "Nat", "0"
				}
				params2 := ""
				for _, v := range sp.Vars {
					if v[2] != "const" {
						params2 += fmt.Sprintf(" (%s : %s)", v[1], v[2])
					}
				}
				out += fmt.Sprintf("/-- result %d of the return statement at each exit of `%s` -/\ndef %sVal%d%s (exit : Nat) : %s :=\n  match exit with\n%s\n  | _ => %s\n\n",
					i+1, sp.Lean, sp.Lean, i+1, params2, ty, strings.Join(arms, "\n"), dflt)
			}
		}
	}
	// which mark was reached at each marked exit
	if len(markIdx) > 0 {
		var arms []string
		for _, mi := range markIdx {
			arms = append(arms, fmt.Sprintf("  | %d => %d", mi[0], mi[1]))
		}
		out += fmt.Sprintf("/-- which of the spec's marks (1-based, in the order of the `marks` list) was reached at each marked exit of `%s` -/\ndef %sMark (exit : Nat) : Nat :=\n  match exit with\n%s\n  | _ => 0\n\n", sp.Lean, sp.Lean, strings.Join(arms, "\n"))
	}
	// the value returned at each exit, when every return statement has one result and all of them translate to one type
	if len(rets) > 0 {
		var arms []string
		okAll, anyBool, anyNum := true, false, false
		for _, rt := range rets {
			if len(rt.r.Results) != 1 {
				okAll = false
				break
			}
			v, isBool, err := trExpr(fi.fset, rt.r.Results[0], vars, used)
			if err != nil {
				okAll = false
				break
			}
			if isBool {
				anyBool = true
			} else {
				anyNum = true
			}
			arms = append(arms, fmt.Sprintf("  | %d => %s", rt.n, v))
		}
		if okAll && anyBool != anyNum {
			ty, dflt := "Bool", "true"
			if anyNum {
				ty, dflt = "Nat", "0"
			}
			params2 := ""
			for _, v := range sp.Vars {
				if v[2] != "const" {
					params2 += fmt.Sprintf(" (%s : %s)", v[1], v[2])
				}
			}
			out += fmt.Sprintf("/-- the value returned at each exit of `%s` (exits that are not `return` statements, and 0, get `%s`) -/\ndef %sVal%s (exit : Nat) : %s :=\n  match exit with\n%s\n  | _ => %s\n\n",
				sp.Lean, dflt, sp.Lean, params2, ty, strings.Join(arms, "\n"), dflt)
		}
	}
	return out, nil
}

var timeConsts = map[string]int64{
	"Nanosecond": 1, "Microsecond": 1e3, "Millisecond": 1e6,
	"Second": 1e9, "Minute": 60e9, "Hour": 3600e9,
}

type fileInfo struct {
	fset *token.FileSet
	f    *ast.File
	pkg  map[string]ast.Expr // const name -> value expr (package level, all files of dir)
	iota map[string]int
}

var cache = map[string]*fileInfo{}

func load(repo, rel string) (*fileInfo, error) {
	if fi, ok := cache[rel]; ok {
		return fi, nil
	}
	fset := token.NewFileSet()
	f, err := parser.ParseFile(fset, filepath.Join(repo, rel), nil, parser.SkipObjectResolution)
	if err != nil {
		return nil, err
	}
	fi := &fileInfo{fset: fset, f: f, pkg: map[string]ast.Expr{}, iota: map[string]int{}}
	// collect package-level constants of all non-test files in the directory
	dir := filepath.Dir(filepath.Join(repo, rel))
	ents, _ := os.ReadDir(dir)
	for _, e := range ents {
		n := e.Name()
		if !strings.HasSuffix(n, ".go") || strings.HasSuffix(n, "_test.go") {
			continue
		}
		g, err := parser.ParseFile(token.NewFileSet(), filepath.Join(dir, n), nil, parser.SkipObjectResolution)
		if err != nil {
			continue
		}
		for _, d := range g.Decls {
			gd, ok := d.(*ast.GenDecl)
			if !ok || (gd.Tok != token.CONST && gd.Tok != token.VAR) {
				continue
			}
			var last []ast.Expr
			for i, s := range gd.Specs {
				vs := s.(*ast.ValueSpec)
				vals := vs.Values
				if len(vals) == 0 {
					vals = last
				} else {
					last = vals
				}
				for j, nm := range vs.Names {
					if j < len(vals) {
						fi.pkg[nm.Name] = vals[j]
						fi.iota[nm.Name] = i
					}
				}
			}
		}
	}
	cache[rel] = fi
	return fi, nil
}

func (fi *fileInfo) eval(e ast.Expr, iota int, depth int) (*big.Int, error) {
	if depth > 50 {
		return nil, fmt.Errorf("too deep")
	}
	switch x := e.(type) {
	case *ast.BasicLit:
		if x.Kind == token.INT {
			v, ok := new(big.Int).SetString(strings.ReplaceAll(x.Value, "_", ""), 0)
			if !ok {
				return nil, fmt.Errorf("bad int %s", x.Value)
			}
			return v, nil
		}
		if x.Kind == token.FLOAT {
			// only exact floats such as 1e9
			r, ok := new(big.Rat).SetString(x.Value)
			if ok && r.IsInt() {
				return new(big.Int).Set(r.Num()), nil
			}
		}
		return nil, fmt.Errorf("unsupported literal %s", x.Value)
	case *ast.ParenExpr:
		return fi.eval(x.X, iota, depth+1)
	case *ast.Ident:
		if x.Name == "iota" {
			return big.NewInt(int64(iota)), nil
		}
		if v, ok := fi.pkg[x.Name]; ok {
			return fi.eval(v, fi.iota[x.Name], depth+1)
		}
		return nil, fmt.Errorf("unknown ident %s", x.Name)
	case *ast.SelectorExpr:
		if id, ok := x.X.(*ast.Ident); ok {
			if id.Name == "time" {
				if v, ok := timeConsts[x.Sel.Name]; ok {
					return big.NewInt(v), nil
				}
			}
			if id.Name == "math" {
				switch x.Sel.Name {
				case "MaxInt64":
					return new(big.Int).SetInt64(1<<63 - 1), nil
				case "MaxUint32":
					return new(big.Int).SetUint64(1<<32 - 1), nil
				case "MaxInt":
					return new(big.Int).SetInt64(1<<63 - 1), nil
				}
			}
			// cross-package constant within the repo: resolved by name if unique
			if v, ok := crossPkg[id.Name+"."+x.Sel.Name]; ok {
				return v, nil
			}
		}
		return nil, fmt.Errorf("unsupported selector %v", x.Sel.Name)
	case *ast.CallExpr: // conversions like int64(x), time.Duration(x)
		if len(x.Args) == 1 {
			return fi.eval(x.Args[0], iota, depth+1)
		}
		return nil, fmt.Errorf("unsupported call")
	case *ast.UnaryExpr:
		v, err := fi.eval(x.X, iota, depth+1)
		if err != nil {
			return nil, err
		}
		switch x.Op {
		case token.SUB:
			return new(big.Int).Neg(v), nil
		case token.ADD:
			return v, nil
		}
		return nil, fmt.Errorf("unsupported unary %s", x.Op)
	case *ast.BinaryExpr:
		a, err := fi.eval(x.X, iota, depth+1)
		if err != nil {
			return nil, err
		}
		b, err := fi.eval(x.Y, iota, depth+1)
		if err != nil {
			return nil, err
		}
		switch x.Op {
		case token.ADD:
			return new(big.Int).Add(a, b), nil
		case token.SUB:
			return new(big.Int).Sub(a, b), nil
		case token.MUL:
			return new(big.Int).Mul(a, b), nil
		case token.QUO:
			if b.Sign() == 0 {
				return nil, fmt.Errorf("div by zero")
			}
			return new(big.Int).Quo(a, b), nil
		case token.SHL:
			return new(big.Int).Lsh(a, uint(b.Uint64())), nil
		}
		return nil, fmt.Errorf("unsupported binary %s", x.Op)
	}
	return nil, fmt.Errorf("unsupported expr %T", e)
}

var crossPkg = map[string]*big.Int{}

func printNode(fset *token.FileSet, n ast.Node) string {
	var b bytes.Buffer
	_ = printer.Fprint(&b, fset, n)
	// normalise whitespace
	return strings.Join(strings.Fields(b.String()), " ")
}

func recvName(fd *ast.FuncDecl) string {
	if fd.Recv == nil || len(fd.Recv.List) == 0 {
		return ""
	}
	t := fd.Recv.List[0].Type
	for {
		switch x := t.(type) {
		case *ast.StarExpr:
			t = x.X
			continue
		case *ast.IndexExpr:
			t = x.X
			continue
		case *ast.IndexListExpr:
			t = x.X
			continue
		case *ast.Ident:
			return x.Name
		}
		return ""
	}
}

type siteFacts struct {
	Conds   []string `json:"conds"`
	Calls   []string `json:"calls"`
	Assigns []string `json:"assigns"`
	// PkgCalls: every call into an imported package made by the function or, transitively, by the functions it calls
	// by name (same package, or a package of this repository) or on its own receiver; one entry "<import path>.Name"
	// per callee, sorted. The angle brackets make `<time>.` match the package time and nothing else.
	PkgCalls []string `json:"pkgcalls"`
	Found    bool     `json:"found"`
}

const modulePath = "github.com/smartcontractkit/chainlink-automation/"

type pkgFunc struct {
	decl    *ast.FuncDecl
	imports map[string]string // local name -> import path, of the file the function is in
}

var pkgFuncCache = map[string]map[string]*pkgFunc{}

// pkgFuncs parses the non-test files of a directory of the repository: "Name" / "Recv.Name" -> declaration
func pkgFuncs(repo, dir string) map[string]*pkgFunc {
	if m, ok := pkgFuncCache[dir]; ok {
		return m
	}
	m := map[string]*pkgFunc{}
	pkgFuncCache[dir] = m
	ents, _ := os.ReadDir(filepath.Join(repo, dir))
	for _, e := range ents {
		n := e.Name()
		if !strings.HasSuffix(n, ".go") || strings.HasSuffix(n, "_test.go") {
			continue
		}
		f, err := parser.ParseFile(token.NewFileSet(), filepath.Join(repo, dir, n), nil, parser.SkipObjectResolution)
		if err != nil {
			continue
		}
		imps := map[string]string{}
		for _, im := range f.Imports {
			path := strings.Trim(im.Path.Value, "\"")
			name := strings.TrimPrefix(path[strings.LastIndex(path, "/")+1:], "go-") // github.com/goccy/go-json is package json
			if im.Name != nil {
				name = im.Name.Name
			}
			imps[name] = path
		}
		for _, d := range f.Decls {
			fd, ok := d.(*ast.FuncDecl)
			if !ok || fd.Body == nil {
				continue
			}
			name := fd.Name.Name
			if r := recvName(fd); r != "" {
				name = r + "." + name
			}
			m[name] = &pkgFunc{decl: fd, imports: imps}
		}
	}
	return m
}

// pkgCallsOf collects the calls into imported packages in the cone of dir:name (see siteFacts.PkgCalls)
func pkgCallsOf(repo, dir, name string, seen map[string]bool, out map[string]bool) {
	key := dir + ":" + name
	if seen[key] {
		return
	}
	seen[key] = true
	funcs := pkgFuncs(repo, dir)
	pf, ok := funcs[name]
	if !ok {
		return
	}
	recvVar, recvType := "", recvName(pf.decl)
	if pf.decl.Recv != nil && len(pf.decl.Recv.List) > 0 && len(pf.decl.Recv.List[0].Names) > 0 {
		recvVar = pf.decl.Recv.List[0].Names[0].Name
	}
	ast.Inspect(pf.decl.Body, func(n ast.Node) bool {
		call, ok := n.(*ast.CallExpr)
		if !ok {
			return true
		}
		fun := call.Fun
		for {
			switch x := fun.(type) {
			case *ast.IndexExpr: // generic instantiation
				fun = x.X
				continue
			case *ast.IndexListExpr:
				fun = x.X
				continue
			case *ast.ParenExpr:
				fun = x.X
				continue
			}
			break
		}
		switch x := fun.(type) {
		case *ast.Ident:
			pkgCallsOf(repo, dir, x.Name, seen, out)
		case *ast.SelectorExpr:
			id, ok := x.X.(*ast.Ident)
			if !ok {
				return true
			}
			if path, ok := pf.imports[id.Name]; ok && id.Name != recvVar {
				out["<"+path+">."+x.Sel.Name] = true
				if strings.HasPrefix(path, modulePath) {
					pkgCallsOf(repo, strings.TrimPrefix(path, modulePath), x.Sel.Name, seen, out)
				}
			} else if id.Name == recvVar && recvType != "" {
				pkgCallsOf(repo, dir, recvType+"."+x.Sel.Name, seen, out)
			}
		}
		return true
	})
}

func main() {
	if len(os.Args) < 4 {
		fmt.Fprintln(os.Stderr, "usage: extract <repo> <out-dir> <lean-gen-file>")
		os.Exit(2)
	}
	repo, outDir, leanFile := os.Args[1], os.Args[2], os.Args[3]
	exprDir := filepath.Join(filepath.Dir(os.Args[0]), "..", "extract", "exprs.d")
	if len(os.Args) > 4 {
		exprDir = os.Args[4]
	}
	loadExprs(exprDir)
	facts := map[string]any{}
	cvals := map[string]string{}
	cerrs := map[string]string{}

	// first pass: v3 package constants reachable cross-package
	for _, c := range consts {
		fi, err := load(repo, c.File)
		if err != nil {
			cerrs[c.Name] = err.Error()
			continue
		}
		e, ok := fi.pkg[c.Name]
		if !ok {
			cerrs[c.File+":"+c.Name] = "not found"
			continue
		}
		v, err := fi.eval(e, fi.iota[c.Name], 0)
		if err != nil {
			// string constant?
			if bl, ok := e.(*ast.BasicLit); ok && bl.Kind == token.STRING {
				cvals[c.File+":"+c.Name] = bl.Value
				continue
			}
			cerrs[c.File+":"+c.Name] = err.Error()
			continue
		}
		cvals[c.File+":"+c.Name] = v.String()
		crossPkg["ocr2keepersv3."+c.Name] = v
		crossPkg["ocr2keepers."+c.Name] = v
	}
	facts["consts"] = cvals
	facts["const_errors"] = cerrs

	sf := map[string]*siteFacts{}
	for _, s := range sites {
		key := s.File + ":" + s.Func
		out := &siteFacts{}
		sf[key] = out
		fi, err := load(repo, s.File)
		if err != nil {
			continue
		}
		for _, d := range fi.f.Decls {
			fd, ok := d.(*ast.FuncDecl)
			if !ok || fd.Body == nil {
				continue
			}
			name := fd.Name.Name
			if r := recvName(fd); r != "" {
				name = r + "." + name
			}
			if name != s.Func {
				continue
			}
			out.Found = true
			pc := map[string]bool{}
			pkgCallsOf(repo, filepath.Dir(s.File), s.Func, map[string]bool{}, pc)
			for k := range pc {
				out.PkgCalls = append(out.PkgCalls, k)
			}
			sort.Strings(out.PkgCalls)
			ast.Inspect(fd.Body, func(n ast.Node) bool {
				switch x := n.(type) {
				case *ast.IfStmt:
					out.Conds = append(out.Conds, printNode(fi.fset, x.Cond))
				case *ast.ForStmt:
					if x.Cond != nil {
						out.Conds = append(out.Conds, "for "+printNode(fi.fset, x.Cond))
					}
				case *ast.CallExpr:
					out.Calls = append(out.Calls, printNode(fi.fset, x))
				case *ast.AssignStmt:
					out.Assigns = append(out.Assigns, printNode(fi.fset, x))
				case *ast.ReturnStmt:
					out.Assigns = append(out.Assigns, printNode(fi.fset, x))
				}
				return true
			})
		}
	}
	facts["sites"] = sf

	// lock discipline
	lf := map[string]any{}
	for _, l := range locks {
		fi, err := load(repo, l.File)
		if err != nil {
			continue
		}
		res := map[string]string{}
		for _, d := range fi.f.Decls {
			fd, ok := d.(*ast.FuncDecl)
			if !ok || fd.Body == nil || recvName(fd) != l.Type {
				continue
			}
			rv := ""
			if len(fd.Recv.List[0].Names) > 0 {
				rv = fd.Recv.List[0].Names[0].Name
			}
			touches, locksFirst := false, false
			firstLockPos, firstTouchPos := token.Pos(0), token.Pos(0)
			ast.Inspect(fd.Body, func(n ast.Node) bool {
				se, ok := n.(*ast.SelectorExpr)
				if !ok {
					return true
				}
				// rv.field
				if id, ok := se.X.(*ast.Ident); ok && id.Name == rv {
					for _, g := range l.Guarded {
						if se.Sel.Name == g {
							if !touches {
								firstTouchPos = se.Pos()
							}
							touches = true
						}
					}
				}
				// rv.mutex.Lock / RLock
				if se.Sel.Name == "Lock" || se.Sel.Name == "RLock" {
					if inner, ok := se.X.(*ast.SelectorExpr); ok {
						if id, ok := inner.X.(*ast.Ident); ok && id.Name == rv && inner.Sel.Name == l.Mutex {
							if firstLockPos == 0 {
								firstLockPos = se.Pos()
							}
						}
					}
				}
				return true
			})
			locksFirst = firstLockPos != 0 && (!touches || firstLockPos < firstTouchPos)
			switch {
			case touches && locksFirst:
				res[fd.Name.Name] = "locked"
			case touches:
				res[fd.Name.Name] = "UNLOCKED"
			case firstLockPos != 0:
				res[fd.Name.Name] = "locks"
			default:
				res[fd.Name.Name] = "none"
			}
		}
		lf[l.File+":"+l.Type+":"+l.Mutex] = res
	}
	facts["locks"] = lf

	if err := os.MkdirAll(outDir, 0o755); err != nil {
		panic(err)
	}
	jb, _ := json.MarshalIndent(facts, "", " ")
	if err := os.WriteFile(filepath.Join(outDir, "facts.json"), jb, 0o644); err != nil {
		panic(err)
	}

	// Lean file
	var b strings.Builder
	b.WriteString("/- GENERATED by /verif/extract from /repo's working tree on every check run. Do not edit. -/\n")
	b.WriteString("namespace AutoVerif.Gen\n\n")
	var names []string
	byLean := map[string]string{}
	for _, c := range consts {
		if c.Lean == "" {
			continue
		}
		v, ok := cvals[c.File+":"+c.Name]
		if !ok {
			// a constant that vanished: emit 0 so that dependent theorems fail loudly
			v = "0"
		}
		if strings.HasPrefix(v, "-") || strings.HasPrefix(v, "\"") {
			continue
		}
		names = append(names, c.Lean)
		byLean[c.Lean] = fmt.Sprintf("/-- %s : %s -/\ndef %s : Nat := %s\n", c.File, c.Name, c.Lean, v)
	}
	sort.Strings(names)
	for _, n := range names {
		b.WriteString(byLean[n])
	}
	srcText, srcErrs := translateExprs(repo)
	b.WriteString(srcText)
	b.WriteString("\nend AutoVerif.Gen\n")
	if len(srcErrs) > 0 {
		jb2, _ := json.MarshalIndent(srcErrs, "", " ")
		_ = os.WriteFile(filepath.Join(outDir, "expr_errors.json"), jb2, 0o644)
	} else {
		_ = os.Remove(filepath.Join(outDir, "expr_errors.json"))
	}
	old, _ := os.ReadFile(leanFile)
	if string(old) != b.String() {
		if err := os.MkdirAll(filepath.Dir(leanFile), 0o755); err != nil {
			panic(err)
		}
		if err := os.WriteFile(leanFile, []byte(b.String()), 0o644); err != nil {
			panic(err)
		}
	}
}
